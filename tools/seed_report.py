#!/usr/bin/env python3
"""Regenerates /verif/seeded/<id>/meta.json and /verif/seeded/README.md from agent_meta.json, verify.log and check_result_*.json."""
import json, os, re
base = '/verif/seeded'
rows = []
for sid in sorted(os.listdir(base)):
    d = os.path.join(base, sid)
    if not os.path.isdir(d):
        continue
    am = json.load(open(os.path.join(d, 'agent_meta.json')))
    ver = open(os.path.join(d, 'verify.log')).read() if os.path.exists(os.path.join(d, 'verify.log')) else ''
    suite = re.search(r'SUITE passed (\d+) failed (\d+)', ver)
    suite2 = re.search(r'SUITEALL passed (\d+) failed (\d+)', ver)
    dw = re.search(r'DEMO_WITH (test result: [^\n]*)', ver)
    dwo = re.search(r'DEMO_WITHOUT (test result: [^\n]*)', ver)
    cr = json.load(open(os.path.join(d, 'check_result_quick.json'))) if os.path.exists(os.path.join(d, 'check_result_quick.json')) else {}
    meta = {"id": sid, "property": am["property"], "summary": am.get("summary"), "needs": am.get("needs"),
            "features_for_demo": am.get("features", ""),
            "source": "written by an independent sub-agent that saw only the property text and a scratch worktree",
            "confirmed_by_me": {"worktree": "/tmp/sv_%s (scratch, removed)" % sid, "patch_applies": "APPLY_OK" in ver,
                                "existing_suite_with_change_default": {"passed": int(suite.group(1)), "failed": int(suite.group(2))} if suite else None,
                                "existing_suite_with_change_all_features": {"passed": int(suite2.group(1)), "failed": int(suite2.group(2))} if suite2 else None,
                                "demo_with_change": dw.group(1) if dw else None, "demo_without_change": dwo.group(1) if dwo else None,
                                "commands": ["tools/verify_seed.sh %s" % sid, "tools/runseeded.py %s" % sid]},
            "checks": cr}
    json.dump(meta, open(os.path.join(d, 'meta.json'), 'w'), indent=1)
    others = ", ".join("%s:%s" % (k, v["verdict"]) for k, v in cr.items() if k != am["property"])
    rows.append((sid, am["property"], (am.get("summary", "") or "")[:150].replace("|", "/"), cr.get(am["property"], {}).get("verdict"),
                 (cr.get(am["property"], {}).get("reasons") or [""])[0][:120].replace("|", "/"), others))
with open(os.path.join(base, 'README.md'), 'w') as f:
    f.write("""# Seeded breaking changes

Each directory holds `patch.diff` (the change to hiking90/rsactor), `seeded_demo.rs` (a test that fails with the change
and passes without it), `agent_meta.json` (the author's description), `verify.log` + `meta.json` (my own confirmation in a
scratch worktree outside /repo and /verif: patch applies, crate builds with default and all features, the existing suite
passes in both configurations, the demo fails with / passes without the change) and `check_result_<tier>.json` (what
`./check` reported with the patch applied to /repo's working tree, undone straight afterwards).

All changes were written by sub-agents that were given only the text of one property and a scratch worktree.

| id | property | change | check verdict (quick) | reason reported | other checks run |
|---|---|---|---|---|---|
""")
    for r in rows:
        f.write("| %s | %s | %s | %s | %s | %s |\n" % r)
    f.write("""
History of misses (each led to an extension, after which the change is caught):

* S_C03 (`ask_join` returns Err(Receive) when the actor ends while the spawned task runs): `ask_join` was not exercised at
  all -> ask_join operations (task delay / task panic) in the stress channel + C03 rules.
* S_C05 (kill followed by dropping the last reference before the signal is consumed reports killed=false): only C04/C06
  rules fired -> C05-tagged rule, and exhaustive path-enumeration stages (every path of a tiny configuration).
* S_C17 (blocking_tell(Some(t)) from async code of a current-thread runtime never times out on a full mailbox): the stress
  workload never kept a mailbox full past a deadline and had no current-thread callers; the change also blocked every
  runtime worker and hung the harness -> "frozen actor" scenario, current-thread callers, progress watchdog.
* S_C18 (asker-side wait-for guard removed): `TraceEq` skipped runs with a deadlock panic; random generation rarely builds
  the needed history -> skip removed, model-deviation finding config (`AskerGuard = FALSE`) whose TLC counterexample is
  executed by the default and the feature build.
* S_C19 (`no_log` leaks into later handlers of the same impl block): the corpus had one handler per program -> `prev`
  dimension in MacroTable.tla.
* S_C09b (stop() on a full mailbox returns at once): only C02/C07 rules fired -> C09 rule "send into a full mailbox
  completed at once".
* S_C07b (mailbox closed after the handler if the envelope held the last reference when it was dequeued): needs drop of
  all handles, then an upgrade during the handler -> path-enumeration stage with downgrade/upgrade (c07y).
* S_C20 (duration of a panicking handler not recorded): no slow handler ever panicked -> `slowpanic` handler outcome.
* S_C02b (blocking_tell(None) from a spawn_blocking thread returns before the message is accepted when the mailbox is full):
  C02 only had async-only stress -> blocking and mixed stress stages for C02.
* S_C08b (on_run kills its own actor and returns Err in the same poll: on_stop gets killed=true): scripted hooks always
  yielded after a nested operation -> "operation, then finish in the same poll" directives (`then`, model constant NestThen)
  and kill as a nested operation of on_run.
* S_C14b (on_stop reached through an on_run error runs outside the task-local scope): on_run never returned Err in the
  deadlock-detection configurations -> RunOuts includes "err" there.
* S_C16c (the TellHandler forwarder of blocking_tell goes through the deprecated alias and loses its timeout): written
  while C16 only compared cooperative (async) executions; the blocking forwarders were exercised by the C17 stress only ->
  direct / wrapper call pairs in the frozen-actor scenario with a C16 pair rule, and spec/Blocking.tla whose cases are
  executed once on the ActorRef and once through the wrapper.
* S_C17c (the timed blocking_ask borrows the caller's runtime handle instead of building a private runtime): the frozen
  scenario's current-thread caller catches it as a late return; spec/Blocking.tla now models who drives the timer
  (deviation HelperRt = "ambient" is refuted by TLC) and its 216 executable cases are replayed on real threads.
* S_C20c (an ask whose caller gave up is not counted in message_count): the C20 configurations had no timed operations, so no
  reply ever failed to be delivered -> stage c20t (askT / tellT with timeouts).
* Round 6 (12 changes). Caught at once: S_C01d, S_C02d, S_C06d, S_C11d, S_C13d. Extensions made because of the others (some
  before the change was first run, after reading its description):
  S_C03d (a String notice sent through the type-erased reply channel of discarded asks: Ok(notice) when Reply = String) ->
  the scripted actor answers odd-numbered requests through a second message type whose reply is a String;
  S_C04d / S_C08d (an on_run that fails at its first poll with a backlog / while messages are queued) -> scripted on_run
  invocations that return at their first poll (`arm`, model constant ArmRun) and the rules "handler / on_run after on_run
  returned Err"; S_C07d (stop() on a full mailbox overtakes the queue through the control channel) -> the "accepted work not
  finished" rule is tagged C07 as well as C01; S_C09d (blocking_tell(None) from spawn_blocking fails on a full mailbox) ->
  Blocking.tla cases with a full mailbox and the rule "no Send error before a later acceptance" in a blocking stress stage
  for C09; S_C10d (timeouts rounded down to whole milliseconds) -> wall-clock C10 stages in microseconds with fractional
  timeouts; S_C14d (per-caller edge tokens: a stale callee-side guard removes the asker's next edge) -> model deviation
  TokenedEdges = FALSE whose 13-step TLC counterexample is replayed into the code.
* Re-running all 52 changes after the model had grown (ask_join, armed on_run: the simulation draws other behaviours from the
  same seed) lost S_C14b, which had been found by random generation only -> model deviation ScopedCleanupStop = FALSE (the
  cleanup on_stop after an on_run error is outside the actor scope); its counterexample is replayed into the code. Detection
  that rests on a deviation's counterexample does not depend on what the random generator happens to draw.
* Round 7 (6 changes: C05 C12 C16 C18 C19 C20). Caught at once: S_C05e, S_C12e. Extensions: S_C16e (the erased *_with_timeout
  forwarders arm their timer when the method is called, not when the future is first polled) -> client futures that are
  created now and polled later (`create` command, OpArm event; the harness calls the API method at creation, as user code
  does); S_C18e (with `tracing`, the stop request's ActorRef is dropped before on_stop: upgrade() fails inside a graceful
  on_stop once all other handles are gone) -> every path of a tiny configuration with weak handles upgraded at every point of a
  graceful stop, compared between the default and the feature builds (c18w); S_C19e (a bare `Result` path without generic
  arguments is no longer recognised) -> `bare_result` spelling in MacroTable.tla; S_C20e (whole seconds converted with the
  wrong factor) -> a handler outcome that holds its thread for 1.1 s (`veryslow`).
* Round 8 (6 changes: C03 C07 C09 C11 C15 C17; 64 in all). Caught at once: S_C03f (the orderly exit bypasses MailboxGuard:
  teardown stress, 1 stranded ask in ~900 iterations), S_C09f (spawn() caches the default capacity at its first call:
  DefaultCap.tla sequence spawn, set, spawn), S_C11f (the failure exits no longer close the mailbox: "send to an ended actor
  did not fail"), S_C15f (has_path answers "cycle" when the walk uses up the whole graph without reaching the asker).
  Extensions: S_C07f (a graceful on_stop raced against the kill channel, whose closing - last reference dropped while on_stop
  is pending - is mistaken for a kill; harmless until the stop marker stops carrying an ActorRef) was reported as model drift
  only -> (1) the replay harness services pending wake-ups with a *spurious poll* of the actor task before it hands a
  directive to a hook parked in on_start / a handler / on_stop (the model has no step there because correct code cannot move;
  the mutated select! can), (2) C07 rules "on_stop(killed=true) although no kill() was ever called" and "a second on_stop
  was entered although no kill or crash intervened"; S_C17f (the timed blocking_ask restarts its deadline when the message
  is accepted) -> Blocking.tla mode `thaw` (no free slot at first, one is freed at Th < T, no reply ever: one deadline for
  send and reply) with its cases executed on real threads under a 2 s timeout so that a second deadline (1.8 T) lies beyond
  T + slack.
""")
print(len(rows), "seeds")
