#!/usr/bin/env python3
"""./check selftest : demonstrates that the binding bites. Records a fresh batch of traces from the real code, checks
that they are clean, then corrupts one recorded field / removes one kind of event at a time and demands that TLC's trace
validation (TraceMon = property monitors, TraceConf = conformance to RsActor.tla) rejects each corrupted trace."""
import json, os, sys, copy
sys.path.insert(0, os.path.dirname(os.path.abspath(__file__)))
import check as C
from plans import BASE, ALL_KINDS, ALL_HANDLER


def mutate(events, fn):
    out = []
    done = False
    for e in events:
        if not done:
            r = fn(e)
            if r is not None:
                done = True
                if r == "DELETE":
                    continue
                out.append(r)
                continue
        out.append(e)
    return out if done else None


def main():
    d = os.path.join(C.WORK, "selftest")
    C.prep_dir(d)
    binp = C.build_harness(["test-utils"])
    consts = dict(BASE)
    consts.update(dict(ClientSeq=["c1", "c2", "c3"], OpKinds=ALL_KINDS, MaxMsg=5, MaxOps=8, MaxH=2, MaxTime=3, Timeouts={1, 2},
                       HandlerOuts=ALL_HANDLER, HandleOps={"drop", "clone"}))
    sp, n = C.generate(d, "st", consts, "sim", 400, 30, 7, 600)
    tr, rep = C.replay(binp, sp, d, "st")
    evs = [json.loads(l) for l in open(tr)]
    results = []

    def judge(name, events, expect_prop=None, expect_drift=False):
        p = os.path.join(d, "mut_%s.ndjson" % name)
        with open(p, "w") as f:
            for e in events:
                f.write(json.dumps(e) + "\n")
        bads = C.trace_monitor(d, [p])
        props = sorted({b[2] for b in bads})
        drifts = C.trace_conform(d, "st_" + name, consts, p)
        ok = True
        if expect_prop is None and not expect_drift:
            ok = not bads and not drifts
        if expect_prop is not None:
            ok = ok and expect_prop in props
        if expect_drift:
            ok = ok and len(drifts) > 0
        results.append((name, ok, props, len(drifts)))
        print("%-28s %-6s monitor=%s conformance_drift=%d" % (name, "ok" if ok else "FAILED", props, len(drifts)))

    judge("unmodified", evs)

    def m_reply(e):
        if e.get("e") == "OpEnd" and e.get("res") == "ok" and e.get("val", 0) > 0:
            x = dict(e); x["val"] = e["val"] + 1; return x
    judge("wrong_reply_value", mutate(evs, m_reply), "C03", True)

    def m_dl(e):
        if e.get("e") == "DeadLetter":
            return "DELETE"
    judge("dead_letter_removed", mutate(evs, m_dl), "C13", True)

    def m_cap(e):
        if e.get("e") == "Sample" and e.get("max", 0) > 0:
            x = dict(e); x["max"] = e["max"] + 1; return x
    judge("capacity_off_by_one", mutate(evs, m_cap), "C09", True)

    def m_stop(e):
        if e.get("e") == "HEnter" and e.get("hook") == "stop":
            return "DELETE"
    judge("on_stop_entry_removed", mutate(evs, m_stop), "C04", True)

    def m_killed(e):
        if e.get("e") == "Joined" and e["res"]["k"] == "completed":
            x = copy.deepcopy(e); x["res"]["killed"] = not e["res"]["killed"]; return x
    judge("result_killed_flipped", mutate(evs, m_killed), "C05", True)

    def m_strong(e):
        if e.get("e") == "Sample" and e.get("strong", 0) > 1:
            x = dict(e); x["strong"] = e["strong"] - 1; return x
    judge("strong_count_off_by_one", mutate(evs, m_strong), None, True)

    # swap the first two handler entries of some run that has at least two (order)
    idx = [i for i, e in enumerate(evs) if e.get("e") == "HEnter" and e.get("hook") == "handler"]
    swapped = None
    for a, b in zip(idx, idx[1:]):
        between = evs[a:b]
        if not any(x.get("e") == "Reset" for x in between) and evs[a]["m"] != evs[b]["m"]:
            swapped = list(evs)
            x, y = dict(evs[a]), dict(evs[b])
            x["m"], y["m"] = evs[b]["m"], evs[a]["m"]
            swapped[a], swapped[b] = x, y
            break
    if swapped:
        judge("handler_order_swapped", swapped, None, True)

    # ---- the hook log of the repository's own test suite, judged by LifeTrace.tla
    import stages as S, shutil
    shutil.copy(os.path.join(C.SPEC, "LifeTrace.tla"), d) if hasattr(C, "SPEC") else shutil.copy("/verif/spec/LifeTrace.tla", d)

    class TE(Exception):
        pass
    lctx = dict(ToolError=TE, log=lambda m: None, save_replay=lambda *a: "-")
    S.stage_repo_tests("C04", "quick", 1, d, binp, dict(props=["C04"]), lctx)
    life = [json.loads(l) for l in open(os.path.join(d, "life_trace.ndjson"))]

    def judge_life(name, events, expect):
        p = os.path.join(d, "life_%s.ndjson" % name)
        with open(p, "w") as f:
            for e in events:
                f.write(json.dumps(e) + "\n")
        _, bads = S.life_check(d, p, "st_" + name, lctx)
        props = sorted({b[0] for b in bads})
        ok = (not bads) if expect is None else (expect in props)
        results.append(("life_" + name, ok, props, 0))
        print("%-28s %-6s LifeTrace=%s" % ("life_" + name, "ok" if ok else "FAILED", props))
    judge_life("unmodified", life, None)
    # an actor that handled messages: claim its on_start failed
    busy = {(e["pid"], e["id"]) for e in life if e["e"] == "HandlerEnter"}
    def m_start(e):
        if e["e"] == "StartExit" and (e["pid"], e["id"]) in busy and e["x"] == 0:
            x = dict(e); x["x"] = 1; return x
    judge_life("start_exit_flipped", mutate(life, m_start), "C04")
    def m_res(e):
        if e["e"] == "Result" and e["x"] == 0 and e["y"] == 0:
            x = dict(e); x["y"] = 1; return x
    judge_life("result_killed_flipped", mutate(life, m_res), "C05")
    def m_run(e):
        if e["e"] == "RunEnd" and e["x"] == 1:
            x = dict(e); x["x"] = 0; return x
    # (Ok(false) turned into Ok(true) is fine; the reverse must be caught: find an actor whose on_run ran twice)
    twice = [k for k in {(e["pid"], e["id"]) for e in life} if sum(1 for e in life if (e["pid"], e["id"]) == k and e["e"] == "RunEnd") >= 2]
    if twice:
        def m_run2(e):
            if e["e"] == "RunEnd" and (e["pid"], e["id"]) == twice[0] and e["x"] == 0:
                x = dict(e); x["x"] = 1; return x
        judge_life("run_true_to_false", mutate(life, m_run2), "C08")

    failed = [r for r in results if not r[1]]
    print("selftest: %d scenarios, %d failed" % (len(results), len(failed)))
    sys.exit(1 if failed else 0)


if __name__ == "__main__":
    main()
