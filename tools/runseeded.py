#!/usr/bin/env python3
"""Apply each /verif/seeded/<id>/patch.diff to /repo, run the quick check of the property it breaks (plus extra checks
named on the command line as id:C0x,C0y), undo. Writes <id>/check_result.json."""
import subprocess, sys, os, json, time
REPO = "/repo"
st = subprocess.run(["git", "-C", REPO, "status", "--porcelain", "--untracked-files=no"], capture_output=True, text=True).stdout.strip()
if st:
    print("refusing: /repo dirty"); sys.exit(1)
args = sys.argv[1:]
tier = "quick"
if "--thorough" in args:
    tier = "thorough"; args.remove("--thorough")
ids = args or sorted(os.listdir("/verif/seeded"))
for sid in ids:
    extra = []
    if ":" in sid:
        sid, e = sid.split(":"); extra = e.split(",")
    d = os.path.join("/verif/seeded", sid)
    patch = os.path.join(d, "patch.diff")
    if not os.path.exists(patch):
        continue
    prop = json.load(open(os.path.join(d, "agent_meta.json")))["property"] if os.path.exists(os.path.join(d, "agent_meta.json")) else sid.split("_")[1]
    r = subprocess.run(["git", "-C", REPO, "apply", patch], capture_output=True, text=True)
    if r.returncode != 0:
        print(sid, "PATCH DOES NOT APPLY", r.stderr[:300]); continue
    res = {}
    try:
        for p in [prop] + extra:
            t0 = time.time()
            c = subprocess.run(["/verif/check", p, "--tier", tier], capture_output=True, text=True)
            tag = {0: "ok", 1: "VIOLATION", 2: "TOOLERR"}.get(c.returncode, str(c.returncode))
            why = [l.strip() for l in c.stdout.splitlines() if l.startswith("  stage=")][:2]
            drift = any("WARNING" in l for l in c.stderr.splitlines())
            res[p] = {"verdict": tag, "drift_or_nonconformance": drift, "reasons": why, "wall_s": round(time.time() - t0)}
            print("%-8s %-4s %-9s %s %s" % (sid, p, tag, "drift" if drift else "", (why[0][:220] if why else (c.stdout.strip().splitlines()[-1][:200] if tag == "TOOLERR" else ""))), flush=True)
    finally:
        subprocess.run(["git", "-C", REPO, "checkout", "--", "."], check=True)
        subprocess.run(["git", "-C", REPO, "clean", "-fdq", "--", "src", "tests", "rsactor-derive"], check=False)
    json.dump(res, open(os.path.join(d, "check_result_%s.json" % tier), "w"), indent=1)
