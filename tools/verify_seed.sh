#!/bin/sh
# usage: verify_seed.sh <seed dir name>   -- confirms a seeded change in a scratch worktree outside /repo and /verif
set -u
S=$1; D=/verif/seeded/$S; W=/tmp/sv_$S; OUT=$D/verify.log
FEAT=$(python3 -c "import json;print(json.load(open('$D/agent_meta.json')).get('features','') or '')" 2>/dev/null | sed 's/--features//; s/^ *//; s/ *$//')
FARG=""; [ -n "$FEAT" ] && FARG="--features $FEAT"
git -C /repo worktree remove --force $W >/dev/null 2>&1
git -C /repo worktree add -q --detach $W HEAD || exit 2
cd $W
{
echo "== apply"; git apply $D/patch.diff && echo APPLY_OK || echo APPLY_FAIL
echo "== build default/all-features"; cargo build --offline 2>&1 | tail -1; cargo build --offline --all-features 2>&1 | tail -1
echo "== existing suite with the change (default features)"
cargo test --workspace --offline --no-fail-fast > suite.out 2>&1; grep -E "^test .* FAILED" suite.out | head -5
grep -E "^test result" suite.out | awk '{p+=$4; f+=$6} END{print "SUITE passed",p,"failed",f}'
echo "== existing suite with the change (--all-features)"
cargo test --workspace --offline --no-fail-fast --all-features > suite2.out 2>&1; grep -E "^test .* FAILED" suite2.out | head -5
grep -E "^test result" suite2.out | awk '{p+=$4; f+=$6} END{print "SUITEALL passed",p,"failed",f}'
cp $D/seeded_demo.rs tests/seeded_demo.rs
echo "== demo with the change ($FARG)"
cargo test --offline $FARG --test seeded_demo 2>&1 | grep -E "^test result" | sed 's/^/DEMO_WITH /'
git apply -R $D/patch.diff
echo "== demo without the change"
cargo test --offline $FARG --test seeded_demo 2>&1 | grep -E "^test result" | sed 's/^/DEMO_WITHOUT /'
} > $OUT 2>&1
cd /; git -C /repo worktree remove --force $W
grep -E "APPLY|SUITE|DEMO" $OUT | tr '\n' ' '; echo
