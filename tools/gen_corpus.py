#!/usr/bin/env python3
"""Turns the rows enumerated by spec/MacroTable.tla into a Rust corpus crate compiled against the
real rsactor macros: one source file per row (usable as its own bin target for the compile verdict
and as a module of the runner for the behavioural verdict)."""
import json, os

SHAPES = {
    "struct": dict(decl="#[derive(Actor, Debug, Clone, PartialEq)]\npub struct A { pub base: u32 }",
                   ty="A", impl_g="", init="A { base: 40 }", base="self.base"),
    "tuple": dict(decl="#[derive(Actor, Debug, Clone, PartialEq)]\npub struct A(pub u32);",
                  ty="A", impl_g="", init="A(40)", base="self.0"),
    "unit": dict(decl="#[derive(Actor, Debug, Clone, PartialEq)]\npub struct A;",
                 ty="A", impl_g="", init="A", base="40"),
    "enum": dict(decl="#[derive(Actor, Debug, Clone, PartialEq)]\npub enum A { On(u32), Off }",
                 ty="A", impl_g="", init="A::On(40)", base="match self { A::On(x) => *x, A::Off => 0 }"),
    "generic": dict(decl="#[derive(Actor, Debug, Clone, PartialEq)]\npub struct A<T: Send + Clone + std::fmt::Debug + PartialEq + 'static> { pub base: u32, pub t: T }",
                    ty="A<T>", impl_g="<T: Send + Clone + std::fmt::Debug + PartialEq + 'static>", init="A::<u8> { base: 40, t: 9 }", base="self.base"),
    "generic_where": dict(decl="#[derive(Actor, Debug, Clone, PartialEq)]\npub struct A<T> where T: Send + Clone + std::fmt::Debug + PartialEq + 'static { pub base: u32, pub t: T }",
                          ty="A<T>", impl_g="<T>", init="A::<u8> { base: 40, t: 9 }", base="self.base",
                          where_="where T: Send + Clone + std::fmt::Debug + PartialEq + 'static"),
}
RETS = {
    "none": dict(sig="", ty="()", body="LAST.store(v, Ordering::SeqCst);", ok="()", err=None),
    "unit": dict(sig="-> ()", ty="()", body="LAST.store(v, Ordering::SeqCst);", ok="()", err=None),
    "u32": dict(sig="-> u32", ty="u32", body="LAST.store(v, Ordering::SeqCst); v", ok="V", err=None),
    "option": dict(sig="-> Option<u32>", ty="Option<u32>", body="LAST.store(v, Ordering::SeqCst); if msg.fail { None } else { Some(v) }", ok="Some(V)", err=None),
    "opt_result": dict(sig="-> Option<Result<u32, CorpErr>>", ty="Option<Result<u32, CorpErr>>",
                       body="LAST.store(v, Ordering::SeqCst); if msg.fail { Some(Err(CorpErr(v))) } else { Some(Ok(v)) }", ok="Some(Ok(V))", err=None),
    "tuple_result": dict(sig="-> (Result<u32, CorpErr>, u32)", ty="(Result<u32, CorpErr>, u32)",
                         body="LAST.store(v, Ordering::SeqCst); if msg.fail { (Err(CorpErr(v)), v) } else { (Ok(v), v) }", ok="(Ok(V), V)", err=None),
    "result": dict(sig="-> Result<u32, CorpErr>", ty="Result<u32, CorpErr>", ok="Ok(V)", err="Err(CorpErr(V))"),
    "std_result": dict(sig="-> std::result::Result<u32, CorpErr>", ty="std::result::Result<u32, CorpErr>", ok="Ok(V)", err="Err(CorpErr(V))"),
    "path_result": dict(sig="-> self::support::Result<u32>", ty="self::support::Result<u32>", ok="Ok(V)", err="Err(CorpErr(V))"),
    "alias": dict(sig="-> Outcome", ty="Outcome", ok="Ok(V)", err="Err(CorpErr(V))"),
    # a path whose last segment is `Result` WITHOUT generic arguments (like std::fmt::Result / io-style crate aliases)
    "bare_result": dict(sig="-> self::bare::Result", ty="self::bare::Result", ok="Ok(V)", err="Err(CorpErr(V))"),
}
for k in ("result", "std_result", "path_result", "alias", "bare_result"):
    RETS[k]["body"] = "LAST.store(v, Ordering::SeqCst); if msg.fail { Err(CorpErr(v)) } else { Ok(v) }"
ATTRS = {"plain": "#[handler]", "result": "#[handler(result)]", "no_log": "#[handler(no_log)]",
         "both": "#[handler(result, no_log)]", "unknown": "#[handler(bogus)]"}


def row_source(row):
    sh, rt = SHAPES[row["shape"]], RETS[row["ret"]]
    msg_pat = "msg"
    if row["msg"] in ("plain", "path", "mutbind"):
        msg_decl = "pub struct M { pub x: u32, pub fail: bool }"
        msg_ty = "self::M" if row["msg"] == "path" else "M"
        if row["msg"] == "mutbind":
            msg_pat = "mut msg"
        mk = lambda x, f: "M { x: %d, fail: %s }" % (x, "true" if f else "false")
    else:
        msg_decl = "pub struct M<G> { pub x: u32, pub fail: bool, pub tag: G }"
        msg_ty = "M<u8>"
        mk = lambda x, f: "M::<u8> { x: %d, fail: %s, tag: 1 }" % (x, "true" if f else "false")
    extra = "    pub fn helper(&self) -> u32 { 99 }\n" if row["extra"] else ""
    prev = row.get("prev", "none")
    prev_decl = "pub struct P0 { pub x: u32 }" if prev != "none" else ""
    if prev != "none":
        extra += ("    %s\n    async fn hp(&mut self, msg: P0, _r: &ActorRef<Self>) -> Result<u32, CorpErr> {\n"
                  "        if msg.x == 0 { Err(CorpErr(0)) } else { Ok(msg.x) }\n    }\n" % ATTRS[prev])
    extra_check = "(%s).helper() == 99" % sh["init"] if row["extra"] else "true"
    ok = lambda x: rt["ok"].replace("V", str(40 + x))
    err = lambda x: rt["err"].replace("V", str(40 + x)) if rt["err"] else None
    spawn_ty = "A<u8>" if row["shape"] in ("generic", "generic_where") else "A"
    ask_err_check = ("{ let v: %s = r.ask(%s).await.unwrap(); v == %s && LAST.load(Ordering::SeqCst) == 43 }" % (rt["ty"], mk(3, True), err(3))) if rt["err"] else \
                    ("{ let _v: %s = r.ask(%s).await.unwrap(); false }" % (rt["ty"], mk(3, True)))
    return f'''// generated from MacroTable row {json.dumps(row, sort_keys=True)}
#![allow(dead_code, unused_imports, unused_variables)]
use rsactor::{{message_handlers, Actor, ActorRef, ActorResult}};
use std::sync::atomic::{{AtomicU32, Ordering}};

#[derive(Debug, Clone, PartialEq)]
pub struct CorpErr(pub u32);
impl std::fmt::Display for CorpErr {{
    fn fmt(&self, f: &mut std::fmt::Formatter<'_>) -> std::fmt::Result {{ write!(f, "corp-err-{{}}", self.0) }}
}}
pub mod support {{ pub type Result<X> = std::result::Result<X, super::CorpErr>; }}
pub mod bare {{ pub type Result = std::result::Result<u32, super::CorpErr>; }}
pub type Outcome = Result<u32, CorpErr>;
pub static LAST: AtomicU32 = AtomicU32::new(0);

{sh["decl"]}
{msg_decl}
{prev_decl}

#[message_handlers]
impl{sh["impl_g"]} {sh["ty"]} {sh.get("where_", "")} {{
{extra}    {ATTRS[row["attr"]]}
    async fn h(&mut self, {msg_pat}: {msg_ty}, _r: &ActorRef<Self>) {rt["sig"]} {{
        {"msg.x += 0;" if row["msg"] == "mutbind" else ""}
        let v: u32 = ({sh["base"]}) + msg.x;
        {rt["body"]}
    }}
}}

pub async fn run(count: &(dyn Fn() -> u64 + Sync)) -> serde_json::Value {{
    let init: {spawn_ty} = {sh["init"]};
    let (r, jh) = rsactor::spawn::<{spawn_ty}>(init.clone());
    let a = count();
    let ask_ok = {{ let v: {rt["ty"]} = r.ask({mk(1, False)}).await.unwrap(); v == {ok(1)} && LAST.load(Ordering::SeqCst) == 41 }};
    let log_ask_ok = count() - a;
    let a = count();
    let ask_err = {ask_err_check};
    let log_ask_err = count() - a;
    let a = count();
    r.tell({mk(5, False)}).await.unwrap();
    let _b: {rt["ty"]} = r.ask({mk(1, False)}).await.unwrap();
    let log_tell_ok = count() - a;
    let a = count();
    r.tell({mk(6, True)}).await.unwrap();
    let _b: {rt["ty"]} = r.ask({mk(1, False)}).await.unwrap();
    let log_tell_err = count() - a;
    r.stop().await.unwrap();
    let start_same = match jh.await.unwrap() {{
        ActorResult::Completed {{ actor, killed }} => {{
            let _e: Option<std::convert::Infallible> = None::<<{spawn_ty} as Actor>::Error>;
            actor == init && !killed
        }}
        _ => false,
    }};
    let extra_ok = {extra_check};
    serde_json::json!({{"compiles": true, "ask_ok": ask_ok, "ask_err": ask_err, "log_tell_err": log_tell_err,
        "log_tell_ok": log_tell_ok, "log_ask_err": log_ask_err, "log_ask_ok": log_ask_ok,
        "start_same": start_same, "extra_ok": extra_ok}})
}}
'''


CARGO = '''[package]
name = "corpus"
version = "0.1.0"
edition = "2021"
autobins = false

[workspace]

[dependencies]
rsactor = { path = "/repo" }
tokio = { version = "1", features = ["macros", "rt", "rt-multi-thread", "sync", "time"] }
serde_json = "1"
tracing = "0.1"

[profile.dev]
opt-level = 0
debug = false

%s
'''

RUNNER = '''use std::sync::atomic::{AtomicU64, Ordering};
static ERR_EVENTS: AtomicU64 = AtomicU64::new(0);
struct Cap;
struct V(bool);
impl tracing::field::Visit for V {
    fn record_debug(&mut self, f: &tracing::field::Field, v: &dyn std::fmt::Debug) {
        if f.name() == "message" && format!("{v:?}").starts_with("tell handler returned error") { self.0 = true; }
    }
}
impl tracing::Subscriber for Cap {
    fn enabled(&self, m: &tracing::Metadata<'_>) -> bool { *m.level() == tracing::Level::ERROR }
    fn new_span(&self, _: &tracing::span::Attributes<'_>) -> tracing::span::Id { tracing::span::Id::from_u64(1) }
    fn record(&self, _: &tracing::span::Id, _: &tracing::span::Record<'_>) {}
    fn record_follows_from(&self, _: &tracing::span::Id, _: &tracing::span::Id) {}
    fn event(&self, e: &tracing::Event<'_>) { let mut v = V(false); e.record(&mut v); if v.0 { ERR_EVENTS.fetch_add(1, Ordering::SeqCst); } }
    fn enter(&self, _: &tracing::span::Id) {}
    fn exit(&self, _: &tracing::span::Id) {}
}
fn count() -> u64 { ERR_EVENTS.load(Ordering::SeqCst) }
%(mods)s
#[tokio::main(flavor = "current_thread")]
async fn main() {
    tracing::subscriber::set_global_default(Cap).unwrap();
%(calls)s
}
'''


def write_crate(rows, d):
    os.makedirs(os.path.join(d, "src", "rows"), exist_ok=True)
    os.makedirs(os.path.join(d, "src", "bin"), exist_ok=True)
    bins = []
    for i, row in enumerate(rows):
        open(os.path.join(d, "src", "rows", "r%d.rs" % i), "w").write(row_source(row))
        open(os.path.join(d, "src", "bin", "r%d.rs" % i), "w").write(
            '#[path = "../rows/r%d.rs"]\nmod row;\nfn main() {}\n' % i)
        bins.append('[[bin]]\nname = "r%d"\npath = "src/bin/r%d.rs"\n' % (i, i))
    bins.append('[[bin]]\nname = "runner"\npath = "src/main.rs"\n')
    open(os.path.join(d, "Cargo.toml"), "w").write(CARGO % "\n".join(bins))
    open(os.path.join(d, "src", "main.rs"), "w").write("fn main() {}\n")


def write_runner(rows, compiled, d):
    mods, calls = [], []
    for i in compiled:
        mods.append('#[path = "rows/r%d.rs"]\nmod r%d;' % (i, i))
        calls.append('    println!("ROW %d {}", r%d::run(&count).await);' % (i, i))
    open(os.path.join(d, "src", "main.rs"), "w").write(RUNNER % dict(mods="\n".join(mods), calls="\n".join(calls)))
