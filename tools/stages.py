"""Extra (non-replay) stages used by some plans: enumerated TLA+ oracles, stress on real threads, macro corpus."""
import json, os, re, subprocess, hashlib, concurrent.futures as cf

JAVA = ["java", "-XX:+UseParallelGC", "-Xmx4g", "-Xss1g",
        "-cp", "/opt/veriftools/tla/tla2tools.jar:/opt/veriftools/tla/CommunityModules-deps.jar", "tlc2.TLC"]


def _unescape(s):
    out, i = [], 0
    while i < len(s):
        if s[i] == "\\" and i + 1 < len(s):
            out.append({"n": "\n", "t": "\t"}.get(s[i + 1], s[i + 1])); i += 2
        else:
            out.append(s[i]); i += 1
    return "".join(out)


def tlc_assume(d, module, env, tag):
    open(os.path.join(d, "empty.cfg"), "w").write("\n")
    e = dict(os.environ); e.update(env)
    p = subprocess.run(JAVA + ["-workers", "1", "-metadir", os.path.join(d, "meta_" + tag), "-noGenerateSpecTE",
                               "-config", "empty.cfg", module + ".tla"], cwd=d, env=e, text=True,
                       stdout=subprocess.PIPE, stderr=subprocess.STDOUT, timeout=1800)
    return p.stdout or ""


def tagged_json(out, tag):
    pre = '<<"%s", "' % tag
    for line in out.splitlines():
        if line.startswith(pre) and line.endswith('">>'):
            return json.loads(_unescape(line[len(pre):-3]))
    return None


def stage_laws(pid, tier, seed, d, binp, st, ctx):
    out = tlc_assume(d, "ResultLaws", {"LAWMODE": "gen"}, "lawgen")
    vals = tagged_json(out, "LAWS")
    if not vals:
        raise ctx["ToolError"]("ResultLaws generation failed")
    vp = os.path.join(d, "law_values.json"); json.dump(vals, open(vp, "w"))
    tp = os.path.join(d, "law_trace.ndjson")
    ctx["run"]([binp, "laws", "--in", vp, "--out", tp], cwd=d, timeout=300)
    out = tlc_assume(d, "ResultLaws", {"LAWMODE": "check", "TRACE": tp}, "lawchk")
    bad = [l for l in out.splitlines() if "LAWBAD" in l or "LAWMISSING" in l]
    if "LAWCHECKED" not in out:
        open(os.path.join(d, "ResultLaws.out"), "w").write(out)
        raise ctx["ToolError"]("ResultLaws check did not complete")
    viol = []
    if bad:
        rp = ctx["save_replay"](pid, "laws", 0, None, [json.loads(l) for l in open(tp)], bad[:5])
        viol.append(("laws", 0, pid, "ActorResult accessor disagrees with the variant's fields: " + bad[0][:300], rp))
    return dict(coverage={"values_enumerated": len(vals), "accessors_per_value": 18, "exhaustive": True},
                violations=viol, traces=len(vals),
                samples=[{"stage": "laws", "value": vals[0]}], nontrivial_keys=["law%d" % i for i in range(len(vals))])


def stage_defaultcap(pid, tier, seed, d, binp, st, ctx):
    out = tlc_assume(d, "DefaultCap", {"LAWMODE": "gen"}, "capgen")
    behs = tagged_json(out, "CAPS")
    if not behs:
        raise ctx["ToolError"]("DefaultCap generation failed")
    if tier == "quick":
        # every behaviour of length <= 2 plus a seeded third of the length-3 ones
        import random
        rnd = random.Random(seed)
        behs = [b for b in behs if len(b) <= 2] + [b for b in behs if len(b) == 3 and rnd.random() < 0.34]
    tp = os.path.join(d, "cap_trace.ndjson")

    def one(b):
        p = subprocess.run([binp, "capprobe", "--ops", json.dumps(b)], text=True, capture_output=True, timeout=120)
        lines = [l for l in p.stdout.splitlines() if l.startswith("{")]
        return lines[-1] if lines else json.dumps({"ops": b, "out": [{"res": "crash", "max": 0, "filled": 0}]})
    with cf.ThreadPoolExecutor(max_workers=os.cpu_count() or 4) as ex:
        lines = list(ex.map(one, behs))
    open(tp, "w").write("\n".join(lines) + "\n")
    out = tlc_assume(d, "DefaultCap", {"LAWMODE": "check", "TRACE": tp}, "capchk")
    if "CAPCHECKED" not in out:
        open(os.path.join(d, "DefaultCap.out"), "w").write(out)
        raise ctx["ToolError"]("DefaultCap check did not complete")
    bad = [l for l in out.splitlines() if "CAPBAD" in l]
    viol = []
    if bad:
        rp = ctx["save_replay"](pid, "defaultcap", 0, None, [json.loads(l) for l in lines], bad[:5])
        viol.append(("defaultcap", 0, pid, "capacity configuration behaves differently from DefaultCap.tla: " + bad[0][:300], rp))
    return dict(coverage={"behaviours_executed_each_in_a_fresh_process": len(behs), "exhaustive": tier == "thorough"},
                violations=viol, traces=len(behs), samples=[{"stage": "defaultcap", "ops": behs[min(9, len(behs) - 1)]}],
                nontrivial_keys=["cap" + hashlib.sha1(json.dumps(b).encode()).hexdigest() for b in behs if len(b) >= 2])
