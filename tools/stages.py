"""Extra (non-replay) stages used by some plans: enumerated TLA+ oracles, stress on real threads, macro corpus."""
import json, os, re, subprocess, hashlib, concurrent.futures as cf

JAVA = ["java", "-XX:+UseParallelGC", "-Xmx4g", "-Xss1g",
        "-cp", "/opt/veriftools/tla/tla2tools.jar:/opt/veriftools/tla/CommunityModules-deps.jar", "tlc2.TLC"]


def _unescape(s):
    out, i = [], 0
    while i < len(s):
        if s[i] == "\\" and i + 1 < len(s):
            out.append({"n": "\n", "t": "\t"}.get(s[i + 1], s[i + 1])); i += 2
        else:
            out.append(s[i]); i += 1
    return "".join(out)


def tlc_assume(d, module, env, tag):
    open(os.path.join(d, "empty.cfg"), "w").write("\n")
    e = dict(os.environ); e.update(env)
    p = subprocess.run(JAVA + ["-workers", "1", "-metadir", os.path.join(d, "meta_" + tag), "-noGenerateSpecTE",
                               "-config", "empty.cfg", module + ".tla"], cwd=d, env=e, text=True,
                       stdout=subprocess.PIPE, stderr=subprocess.STDOUT, timeout=1800)
    return p.stdout or ""


def tagged_json(out, tag):
    pre = '<<"%s", "' % tag
    for line in out.splitlines():
        if line.startswith(pre) and line.endswith('">>'):
            return json.loads(_unescape(line[len(pre):-3]))
    return None


def stage_laws(pid, tier, seed, d, binp, st, ctx):
    out = tlc_assume(d, "ResultLaws", {"LAWMODE": "gen"}, "lawgen")
    vals = tagged_json(out, "LAWS")
    if not vals:
        raise ctx["ToolError"]("ResultLaws generation failed")
    vp = os.path.join(d, "law_values.json"); json.dump(vals, open(vp, "w"))
    tp = os.path.join(d, "law_trace.ndjson")
    ctx["run"]([binp, "laws", "--in", vp, "--out", tp], cwd=d, timeout=300)
    out = tlc_assume(d, "ResultLaws", {"LAWMODE": "check", "TRACE": tp}, "lawchk")
    bad = [l for l in out.splitlines() if "LAWBAD" in l or "LAWMISSING" in l]
    if "LAWCHECKED" not in out:
        open(os.path.join(d, "ResultLaws.out"), "w").write(out)
        raise ctx["ToolError"]("ResultLaws check did not complete")
    viol = []
    if bad:
        rp = ctx["save_replay"](pid, "laws", 0, None, [json.loads(l) for l in open(tp)], bad[:5])
        viol.append(("laws", 0, pid, "ActorResult accessor disagrees with the variant's fields: " + bad[0][:300], rp))
    return dict(coverage={"values_enumerated": len(vals), "accessors_per_value": 18, "exhaustive": True},
                violations=viol, traces=len(vals),
                samples=[{"stage": "laws", "value": vals[0]}], nontrivial_keys=["law%d" % i for i in range(len(vals))])


def stage_defaultcap(pid, tier, seed, d, binp, st, ctx):
    out = tlc_assume(d, "DefaultCap", {"LAWMODE": "gen"}, "capgen")
    behs = tagged_json(out, "CAPS")
    if not behs:
        raise ctx["ToolError"]("DefaultCap generation failed")
    if tier == "quick":
        # every behaviour of length <= 2 plus a seeded third of the length-3 ones
        import random
        rnd = random.Random(seed)
        behs = [b for b in behs if len(b) <= 2] + [b for b in behs if len(b) == 3 and rnd.random() < 0.34]
    tp = os.path.join(d, "cap_trace.ndjson")

    def one(b):
        p = subprocess.run([binp, "capprobe", "--ops", json.dumps(b)], text=True, capture_output=True, timeout=120)
        lines = [l for l in p.stdout.splitlines() if l.startswith("{")]
        return lines[-1] if lines else json.dumps({"ops": b, "out": [{"res": "crash", "max": 0, "filled": 0}]})
    with cf.ThreadPoolExecutor(max_workers=os.cpu_count() or 4) as ex:
        lines = list(ex.map(one, behs))
    open(tp, "w").write("\n".join(lines) + "\n")
    out = tlc_assume(d, "DefaultCap", {"LAWMODE": "check", "TRACE": tp}, "capchk")
    if "CAPCHECKED" not in out:
        open(os.path.join(d, "DefaultCap.out"), "w").write(out)
        raise ctx["ToolError"]("DefaultCap check did not complete")
    bad = [l for l in out.splitlines() if "CAPBAD" in l]
    viol = []
    if bad:
        rp = ctx["save_replay"](pid, "defaultcap", 0, None, [json.loads(l) for l in lines], bad[:5])
        viol.append(("defaultcap", 0, pid, "capacity configuration behaves differently from DefaultCap.tla: " + bad[0][:300], rp))
    return dict(coverage={"behaviours_executed_each_in_a_fresh_process": len(behs), "exhaustive": tier == "thorough"},
                violations=viol, traces=len(behs), samples=[{"stage": "defaultcap", "ops": behs[min(9, len(behs) - 1)]}],
                nontrivial_keys=["cap" + hashlib.sha1(json.dumps(b).encode()).hexdigest() for b in behs if len(b) >= 2])


def stage_stress(pid, tier, seed, d, binp, st, ctx):
    """Channel C: seeded random workloads on real threads, judged by the monitors with strict = FALSE."""
    iters = st["iters"][tier]
    mix = st.get("mix", "mixed")
    tr = os.path.join(d, "stress_%s.ndjson" % st["name"])
    life_tr = os.path.join(d, "life_%s.ndjson" % st["name"])
    if os.path.exists(life_tr):
        os.remove(life_tr)
    p = ctx["run"]([binp, "stress", "--iters", str(iters), "--seed", str(seed), "--par", "16", "--mix", mix, "--out", tr],
                   cwd=d, timeout=900 if tier == "quick" else 7200, env={"RSACTOR_VERIF_TRACE": life_tr} if st.get("life") else None)
    files, nruns, nev = ctx["split_trace"](tr, d, "stress_" + st["name"], ctx["NCPU"])
    bads = ctx["trace_monitor"](d, files)
    json.dump(bads, open(os.path.join(d, "bads_stress_%s.json" % st["name"]), "w"))
    props = set(st.get("props", [pid]))
    mine = [b for b in bads if b[2] in props and (pid != "C12" or b[0] in ctx["crashed"])]
    viol = []
    life_events = 0
    if st.get("life") and os.path.exists(life_tr):
        # the same workload as seen by the hooks inside rsactor, judged by LifeTrace.tla
        levs, lbads = life_check(d, life_tr, st["name"], ctx)
        life_events = len(levs)
        for i, (pp, why, line) in enumerate([b for b in lbads if b[0] in props][:5]):
            m = re.search(r'LIFEBAD\\?", (\d+), (\d+)', line)
            key = (int(m.group(1)), int(m.group(2))) if m else None
            rp = ctx["save_replay"](pid, "life_" + st["name"], i, None, [e for e in levs if key and (e["pid"], e["id"]) == key], [line[:600]])
            viol.append(("life_" + st["name"], i, pp, why + " (hook log of the stress workload)", rp))
        ctx["log"]("stress %s: %d lifecycle events logged by the hooks, LifeTrace violations of %s: %d"
                   % (st["name"], life_events, sorted(props), len([b for b in lbads if b[0] in props])))
    runs = None
    seen = set()
    for (rid, line, prop, why) in mine:
        if rid in seen:
            continue
        seen.add(rid)
        if runs is None:
            runs = ctx["load_runs"](tr)
        rp = ctx["save_replay"](pid, "stress_" + st["name"], rid, None, runs.get(rid, []), [b for b in bads if b[0] == rid])
        viol.append(("stress_" + st["name"], rid, prop, why, rp))
        if len(viol) >= 10:
            break
    # a small sample and the non-trivial count: the plan's own predicate applied to each run (streamed; at most
    # the first 20000 runs are classified)
    sample = []
    keys = []
    apis = st.get("apis")
    pred = ctx.get("nontrivial")
    def classify(run_id, evs):
        if run_id is None or not evs:
            return
        if apis is not None:
            ok = any(e.get("e") == "OpStart" and e.get("api") in apis for e in evs)
        elif pred is not None:
            try:
                ok = bool(pred(evs))
            except Exception:
                ok = False
        else:
            ok = True
        if ok:
            keys.append("stress_%s_%s" % (st["name"], run_id))
            if len(sample) < 2:
                sample.append({"stage": "stress_" + st["name"], "run": run_id,
                               "events": [e for e in evs if e.get("e") in ("OpStart", "OpEnd", "Joined")][:12]})
    with open(tr) as f:
        cur, evs, n = None, [], 0
        for line in f:
            ev = json.loads(line)
            if ev.get("e") == "Reset":
                classify(cur, evs)
                n += 1
                if n > 20000:
                    cur, evs = None, []
                    break
                cur, evs = ev["run"], []
            else:
                evs.append(ev)
        classify(cur, evs)
    ctx["log"]("stress %s: %d runs, %d events on real threads, violations of %s: %d" % (st["name"], nruns, nev, sorted(props), len(seen)))
    return dict(coverage={"runs": nruns, "events": nev, "mix": mix, "seed": seed}, violations=viol, traces=nruns,
                samples=sample, nontrivial_keys=sorted(set(keys)))


def stage_macro(pid, tier, seed, d, binp, st, ctx):
    """C19: rows of MacroTable.tla -> corpus crate compiled against the real macros -> TLC validates."""
    import gen_corpus, shutil, time
    out = tlc_assume(d, "MacroTable", {"LAWMODE": "gen", "ROWSET": "all" if tier == "thorough" else "quick"}, "rowgen")
    rows = tagged_json(out, "ROWS")
    if not rows:
        open(os.path.join(d, "MacroTable.out"), "w").write(out)
        raise ctx["ToolError"]("MacroTable generation failed")
    env = dict(os.environ)
    env.update({"CARGO_TARGET_DIR": "/verif/harness/target_corpus", "CARGO_NET_OFFLINE": "true",
                "RUSTFLAGS": "--cfg rsactor_verif --check-cfg cfg(rsactor_verif)"})
    t0 = time.time()
    all_rows = rows
    obs = {}
    ncompiled = 0
    SHARD = 600          # cargo needs several GB to plan a package with thousands of bin targets
    for base in range(0, len(all_rows), SHARD):
        rows = all_rows[base:base + SHARD]
        cd = os.path.join(d, "corpus")
        shutil.rmtree(cd, ignore_errors=True)
        os.makedirs(cd)
        gen_corpus.write_crate(rows, cd)
        shutil.copy2("/verif/harness/Cargo.lock", os.path.join(cd, "Cargo.lock"))
        p = subprocess.run(["cargo", "check", "--offline", "--bins", "--keep-going", "--message-format=json"],
                           cwd=cd, env=env, text=True, capture_output=True, timeout=3600)
        failed = set()
        for line in p.stdout.splitlines():
            if not line.startswith("{"):
                continue
            try:
                m = json.loads(line)
            except ValueError:
                continue
            if m.get("reason") == "compiler-message" and m.get("message", {}).get("level") == "error":
                failed.add(m["target"]["name"])
        if "runner" in failed or ("error: could not compile" not in p.stderr and p.returncode != 0 and not failed):
            open(os.path.join(d, "corpus_check.err"), "w").write("rc=%s\n" % p.returncode + p.stderr[-20000:])
            raise ctx["ToolError"]("corpus crate could not be checked (see corpus_check.err)")
        compiled = [i for i in range(len(rows)) if ("r%d" % i) not in failed]
        ncompiled += len(compiled)
        gen_corpus.write_runner(rows, compiled, cd)
        p = subprocess.run(["cargo", "run", "--offline", "--bin", "runner"], cwd=cd, env=env, text=True,
                           capture_output=True, timeout=3600)
        if p.returncode != 0:
            open(os.path.join(d, "corpus_run.err"), "w").write(p.stderr[-20000:] + "\n" + p.stdout[-5000:])
            raise ctx["ToolError"]("corpus runner failed (see corpus_run.err)")
        for line in p.stdout.splitlines():
            if line.startswith("ROW "):
                _, i, js = line.split(" ", 2)
                obs[base + int(i)] = json.loads(js)
    rows = all_rows
    compiled = list(range(ncompiled))
    ctx["log"]("macro corpus: %d programs, %d compile, %d rejected by the compiler (%.0fs)" %
               (len(rows), ncompiled, len(rows) - ncompiled, time.time() - t0))
    tp = os.path.join(d, "macro_trace.ndjson")
    with open(tp, "w") as f:
        for i, row in enumerate(rows):
            o = obs.get(i, {"compiles": False})
            f.write(json.dumps({"row": row, "obs": o}) + "\n")
    out = tlc_assume(d, "MacroTable", {"LAWMODE": "check", "TRACE": tp, "ROWSET": "x"}, "rowchk")
    if "ROWSCHECKED" not in out:
        open(os.path.join(d, "MacroTable.out"), "w").write(out)
        raise ctx["ToolError"]("MacroTable check did not complete")
    bad = [l for l in out.splitlines() if "ROWBAD" in l]
    viol = []
    if bad:
        rp = ctx["save_replay"](pid, "macro", 0, None, [json.loads(l) for l in open(tp)], bad[:8])
        viol.append(("macro", 0, pid, "generated code differs from the decision table: " + bad[0][:400], rp))
    return dict(coverage={"programs_generated": len(rows), "compiled_and_run": len(compiled),
                          "rejected_by_compiler": len(rows) - len(compiled), "exhaustive": tier == "thorough"},
                violations=viol, traces=len(rows),
                samples=[{"stage": "macro", "row": rows[0]}, {"stage": "macro", "row": rows[-1]}],
                nontrivial_keys=["row%d" % i for i in range(len(rows))])


def stage_spawnids(pid, tier, seed, d, binp, st, ctx):
    per = 3000 if tier == "quick" else 60000
    tp = os.path.join(d, "spawnids.ndjson")
    ctx["run"]([binp, "spawnids", "--threads", "16", "--per", str(per), "--out", tp], cwd=d, timeout=1800)
    out = tlc_assume(d, "IdsUnique", {"TRACE": tp}, "ids")
    if "IDSCHECKED" not in out:
        open(os.path.join(d, "IdsUnique.out"), "w").write(out)
        raise ctx["ToolError"]("IdsUnique check did not complete")
    bad = [l for l in out.splitlines() if "IDSBAD" in l]
    viol = []
    if bad:
        rp = ctx["save_replay"](pid, "spawnids", 0, None, [], bad)
        viol.append(("spawnids", 0, pid, "two concurrently spawned actors share an id: " + bad[0][:200], rp))
    return dict(coverage={"threads": 16, "spawns": 16 * per}, violations=viol, traces=16,
                samples=[{"stage": "spawnids", "threads": 16, "per_thread": per}], nontrivial_keys=["ids%d" % i for i in range(16)])


def stage_teardown_model(pid, tier, seed, d, binp, st, ctx):
    """Teardown.tla: with the detached drain every ask completes and nothing is stranded; without it (the code before
    the F2 fix) TLC must find the stranded envelope."""
    askers = "{a1, a2, a3}" if tier == "quick" else "{a1, a2, a3, a4}"
    res = {}
    total_states = total_trans = 0
    for name, fix, cap in (("fixed", "TRUE", 1), ("fixed_cap2", "TRUE", 2), ("old", "FALSE", 1)):
        cfg = ("SPECIFICATION Spec\nINVARIANTS NoStranded PermitsSane\nPROPERTY EveryAskCompletes\nCHECK_DEADLOCK FALSE\n"
               "CONSTANTS\n  Askers = %s\n  Cap = %d\n  DetachedDrain = %s\n" % (askers, cap, fix))
        open(os.path.join(d, "Teardown_%s.cfg" % name), "w").write(cfg)
        p = subprocess.run(JAVA[:2] + ["-Xmx4g"] + JAVA[4:] + ["-workers", "4", "-metadir", os.path.join(d, "meta_td_" + name),
                            "-noGenerateSpecTE", "-config", "Teardown_%s.cfg" % name, "Teardown.tla"],
                           cwd=d, text=True, stdout=subprocess.PIPE, stderr=subprocess.STDOUT, timeout=1800)
        out = p.stdout
        m = re.findall(r"(\d[\d,]*) states generated, (\d[\d,]*) distinct states found", out)
        g, ds = (int(m[-1][0].replace(",", "")), int(m[-1][1].replace(",", ""))) if m else (0, 0)
        violated = "is violated" in out or "was violated" in out
        res[name] = dict(states=ds, transitions=g, violated=violated)
        total_states += ds
        total_trans += g
        if fix == "TRUE" and (violated or "Model checking completed" not in out):
            open(os.path.join(d, "Teardown_%s.out" % name), "w").write(out)
            raise ctx["ToolError"]("MODEL FAILURE: Teardown.tla (%s) does not satisfy NoStranded / EveryAskCompletes" % name)
        if fix == "FALSE" and not violated:
            raise ctx["ToolError"]("Teardown.tla (old behaviour) was expected to exhibit the stranded envelope but did not")
    ctx["log"]("Teardown.tla: %s" % res)
    return dict(coverage=res, violations=[], traces=0, states=total_states, transitions=total_trans, samples=[], nontrivial_keys=[])


def stage_teardown_stress(pid, tier, seed, d, binp, st, ctx):
    iters = st["iters"][tier]
    tr = os.path.join(d, "teardown.ndjson")
    p = ctx["run"]([binp, "teardown", "--iters", str(iters), "--seed", str(seed), "--sample", "200", "--out", tr], cwd=d, timeout=7200)
    m = re.search(r"asks=(\d+) runs_with_pending=(\d+) runs_written=(\d+)", p.stdout or "")
    asks, hung, written = (int(m.group(1)), int(m.group(2)), int(m.group(3))) if m else (0, 0, 0)
    files, nruns, nev = ctx["split_trace"](tr, d, "teardown", ctx["NCPU"])
    bads = ctx["trace_monitor"](d, files)
    mine = [b for b in bads if b[2] == pid]
    viol = []
    seen = set()
    runs = None
    for (rid, line, prop, why) in mine:
        if rid in seen:
            continue
        seen.add(rid)
        if runs is None:
            runs = ctx["load_runs"](tr)
        rp = ctx["save_replay"](pid, "teardown", rid, None, runs.get(rid, []), [b for b in bads if b[0] == rid])
        viol.append(("teardown", rid, prop, why + " (ask raced the end of the actor task on a multi-threaded runtime)", rp))
        if len(viol) >= 10:
            break
    ctx["log"]("teardown stress: %d iterations, %d asks racing the actor's end, runs with something pending: %d, C03 violations: %d"
               % (iters, asks, hung, len(seen)))
    return dict(coverage={"iterations": iters, "asks_racing_teardown": asks, "runs_with_pending": hung, "runs_judged_by_tlc": nruns},
                violations=viol, traces=iters, samples=[{"stage": "teardown", "iterations": iters, "askers": 6}],
                nontrivial_keys=["td%d" % i for i in range(min(iters, 1000))])


def stage_liveness(pid, tier, seed, d, binp, st, ctx):
    """Live.tla: temporal properties of RsActor.tla under weak fairness, no state constraint."""
    import plans as _p
    consts = dict(_p.BASE)
    consts.update(st["consts"][tier])
    props = st["props"]
    mod = "Live_" + st["cfgname"]
    body = ["---- MODULE %s ----" % mod, "EXTENDS Live"]
    for k in ("ActorSeq", "ClientSeq"):
        body.append("k_%s == %s" % (k, _p.tla_value(consts[k], seq=True)))
    body.append("====")
    open(os.path.join(d, mod + ".tla"), "w").write("\n".join(body) + "\n")
    lines = ["SPECIFICATION Spec", "CHECK_DEADLOCK FALSE", "PROPERTIES " + " ".join(props), "CONSTANTS"]
    for k, v in consts.items():
        lines.append("  %s <- k_%s" % (k, k) if k in ("ActorSeq", "ClientSeq") else "  %s = %s" % (k, _p.tla_value(v)))
    open(os.path.join(d, mod + ".cfg"), "w").write("\n".join(lines) + "\n")
    p = subprocess.run(JAVA[:2] + ["-Xmx12g"] + JAVA[4:] + ["-workers", str(min(12, os.cpu_count() or 4)), "-metadir", os.path.join(d, "meta_" + mod),
                        "-noGenerateSpecTE", "-config", mod + ".cfg", mod + ".tla"],
                       cwd=d, text=True, stdout=subprocess.PIPE, stderr=subprocess.STDOUT, timeout=st.get("timeout", 3000))
    out = p.stdout
    m = re.findall(r"(\d[\d,]*) states generated, (\d[\d,]*) distinct states found", out)
    g, ds = (int(m[-1][0].replace(",", "")), int(m[-1][1].replace(",", ""))) if m else (0, 0)
    if "Model checking completed. No error has been found." not in out:
        open(os.path.join(d, mod + ".out"), "w").write(out)
        raise ctx["ToolError"]("MODEL FAILURE: liveness %s not established on RsActor.tla (see %s.out)" % (props, mod))
    ctx["log"]("liveness %s: %s hold under fairness on %d states" % (st["cfgname"], props, ds))
    return dict(coverage={"temporal_properties": props, "states": ds, "transitions": g, "fairness": "WF per actor burst, per client poll, clock"},
                violations=[], traces=0, states=ds, transitions=g, samples=[], nontrivial_keys=[])


def stage_apalache_mailbox(pid, tier, seed, d, binp, st, ctx):
    """Apalache: the capacity invariant of the mailbox semaphore is inductive for EVERY capacity (symbolic Cap >= 1)."""
    import shutil
    src = "/verif/spec/apalache/MailboxInd.tla"
    wd = os.path.join(d, "apalache")
    os.makedirs(wd, exist_ok=True)
    shutil.copy2(src, wd)
    steps = [("base: Init => IndInv", ["--init=Init", "--inv=IndInv", "--length=0"]),
             ("step: IndInv /\\ Next => IndInv'", ["--init=IndInit", "--inv=IndInv", "--length=1"]),
             ("IndInv => CapacityBound", ["--init=IndInit", "--inv=CapacityBound", "--length=0"])]
    res = []
    for name, args in steps:
        p = subprocess.run(["apalache-mc", "check", "--cinit=ConstInit"] + args + ["MailboxInd.tla"], cwd=wd, text=True,
                           stdout=subprocess.PIPE, stderr=subprocess.STDOUT, timeout=1200)
        ok = "The outcome is: NoError" in p.stdout
        res.append({"obligation": name, "discharged": ok})
        if not ok:
            open(os.path.join(d, "apalache.out"), "w").write(p.stdout)
            raise ctx["ToolError"]("MODEL FAILURE: Apalache could not establish '%s' for spec/apalache/MailboxInd.tla" % name)
    shutil.rmtree(os.path.join(wd, "_apalache-out"), ignore_errors=True)
    ctx["log"]("apalache: capacity invariant of the mailbox semaphore is inductive for every capacity (3 obligations)")
    return dict(coverage={"tool": "apalache-mc 0.58", "obligations": res, "capacity": "symbolic, Cap >= 1", "senders": 5},
                violations=[], traces=0, samples=[], nontrivial_keys=[])


def stage_apalache_waitfor(pid, tier, seed, d, binp, st, ctx):
    """Apalache: the wait-for graph stays acyclic for histories of any length, and an ask is refused exactly when its edge
    would close a cycle (4 actors)."""
    import shutil
    wd = os.path.join(d, "apalache_wf")
    os.makedirs(wd, exist_ok=True)
    shutil.copy2("/verif/spec/apalache/WaitForInd.tla", wd)
    steps = [("base: Init => IndInv", ["--init=Init", "--inv=IndInv", "--length=0"]),
             ("step: IndInv /\\ Next => IndInv'", ["--init=IndInit", "--inv=IndInv", "--length=1"]),
             ("IndInv => DetectExact", ["--init=IndInit", "--inv=DetectExact", "--length=0"])]
    res = []
    for name, args in steps:
        p = subprocess.run(["apalache-mc", "check", "--cinit=ConstInit"] + args + ["WaitForInd.tla"], cwd=wd, text=True,
                           stdout=subprocess.PIPE, stderr=subprocess.STDOUT, timeout=1800)
        ok = "The outcome is: NoError" in p.stdout
        res.append({"obligation": name, "discharged": ok})
        if not ok:
            open(os.path.join(d, "apalache_wf.out"), "w").write(p.stdout)
            raise ctx["ToolError"]("MODEL FAILURE: Apalache could not establish '%s' for spec/apalache/WaitForInd.tla" % name)
    shutil.rmtree(os.path.join(wd, "_apalache-out"), ignore_errors=True)
    ctx["log"]("apalache: the wait-for graph is inductively acyclic and the refusal of an ask is exact (3 obligations, 4 actors)")
    return dict(coverage={"tool": "apalache-mc 0.58", "obligations": res, "actors": 4, "history_length": "unbounded (inductive)"},
                violations=[], traces=0, samples=[], nontrivial_keys=[])


def stage_small_model(pid, tier, seed, d, binp, st, ctx):
    """Exhaustive TLC run of a small stand-alone module (fine-grained sub-models); must complete without error."""
    mod = st["module"]
    cfg = st["cfg"][tier]
    name = "%s_%s" % (mod, st["name"])
    open(os.path.join(d, name + ".cfg"), "w").write(cfg)
    p = subprocess.run(JAVA[:2] + ["-Xmx8g"] + JAVA[4:] + ["-workers", "8", "-metadir", os.path.join(d, "meta_" + name),
                        "-noGenerateSpecTE", "-config", name + ".cfg", mod + ".tla"],
                       cwd=d, text=True, stdout=subprocess.PIPE, stderr=subprocess.STDOUT, timeout=st.get("timeout", 1800))
    out = p.stdout
    m = re.findall(r"(\d[\d,]*) states generated, (\d[\d,]*) distinct states found", out)
    g, ds = (int(m[-1][0].replace(",", "")), int(m[-1][1].replace(",", ""))) if m else (0, 0)
    if "Model checking completed. No error has been found." not in out:
        open(os.path.join(d, name + ".out"), "w").write(out)
        raise ctx["ToolError"]("MODEL FAILURE: %s does not satisfy its properties (see %s.out)" % (mod, name))
    ctx["log"]("%s: %d states, all invariants / temporal properties hold" % (mod, ds))
    return dict(coverage={"module": mod, "states": ds, "transitions": g}, violations=[], traces=0, states=ds, transitions=g,
                samples=[], nontrivial_keys=[])


def stage_blocking_cases(pid, tier, seed, d, binp, st, ctx):
    """Blocking.tla: (1) TLC checks ByDeadline / Returns / NoPanic / Delivery for every caller context and prints one CASE line
    per terminal state; (2) the two deviations must be refuted by TLC; (3) every case the code can run is executed on real
    threads (vh blockcases) and compared with the model's outcome.  pid C17 judges the calls on the ActorRef, pid C16 compares
    each call through a wrapper with the same call on the ActorRef."""
    T_US, SLACK = 300400, 1000000      # a timeout that is not a whole number of milliseconds; scheduling slack
    T_THAW = 2000300
    base = ("SPECIFICATION Spec\nCONSTANTS\n  HelperRt = \"%s\"\n  KeepsTimeout = %s\n  OneDeadline = %s\n  T = 2\n  MaxNow = 4\n  Emit = %s\n"
            "INVARIANTS ByDeadline ReturnsInv NoPanic Delivery EmitCases\nPROPERTIES Returns\nCHECK_DEADLOCK FALSE\n")
    def tlc(name, helper, keeps, emit, one="TRUE"):
        open(os.path.join(d, "Blocking_%s.cfg" % name), "w").write(base % (helper, keeps, one, emit))
        p = subprocess.run(JAVA[:2] + ["-Xmx2g"] + JAVA[4:] + ["-workers", "1", "-metadir", os.path.join(d, "meta_blk_" + name),
                            "-noGenerateSpecTE", "-config", "Blocking_%s.cfg" % name, "Blocking.tla"],
                           cwd=d, text=True, stdout=subprocess.PIPE, stderr=subprocess.STDOUT, timeout=600)
        return p.stdout or ""
    out = tlc("asis", "private", "TRUE", "TRUE")
    if "Model checking completed. No error has been found." not in out:
        open(os.path.join(d, "Blocking_asis.out"), "w").write(out)
        raise ctx["ToolError"]("MODEL FAILURE: Blocking.tla does not satisfy its properties (see Blocking_asis.out)")
    m = re.findall(r"(\d[\d,]*) states generated, (\d[\d,]*) distinct states found", out)
    g, ds = (int(m[-1][0].replace(",", "")), int(m[-1][1].replace(",", ""))) if m else (0, 0)
    cases = []
    pre = '<<"CASE", "'
    for line in out.splitlines():
        if line.startswith(pre) and line.endswith('">>'):
            cases.append(json.loads(_unescape(line[len(pre):-3])))
    key = lambda c: tuple(c["cfg"][k] for k in ("ctx", "home", "mode", "api", "form", "via"))
    model = {}
    for c in cases:
        model.setdefault(key(c), set()).add((c["res"], c["queued"]))
    if not model or any(len(v) != 1 for v in model.values()):
        raise ctx["ToolError"]("Blocking.tla: no cases, or a configuration with more than one outcome")
    for name, helper, keeps, one in (("ambient", "ambient", "TRUE", "TRUE"), ("dropsT", "private", "FALSE", "TRUE"),
                                     ("twoDeadlines", "private", "TRUE", "FALSE")):
        o = tlc(name, helper, keeps, "FALSE", one)
        if "is violated" not in o:
            raise ctx["ToolError"]("Blocking.tla deviation %s was expected to be refuted by TLC but was not" % name)
    # the model itself must be transparent: a wrapper case and its direct twin have the same outcome
    for k, v in model.items():
        if k[5] == "erased" and model.get(k[:5] + ("direct",)) != v:
            raise ctx["ToolError"]("MODEL FAILURE: Blocking.tla gives the wrapper a different outcome: %s" % (k,))
    runnable = [c for c in cases if c["res"] != "panic"]     # untimed calls on a runtime's own thread: tokio panics, nothing is promised
    runnable.sort(key=key)
    # mode "thaw" (a slot is freed at 0.8 T, no reply ever) runs with a long timeout: a second deadline started at the moment of
    # acceptance would end at 1.8 T, which has to lie beyond T + SLACK
    obs = {}
    for tag, sel, t_us in (("", lambda c: c["cfg"]["mode"] != "thaw", T_US), ("_thaw", lambda c: c["cfg"]["mode"] == "thaw", T_THAW)):
        cp = os.path.join(d, "block_cases%s.json" % tag); json.dump([c for c in runnable if sel(c)], open(cp, "w"))
        rp_ = os.path.join(d, "block_results%s.json" % tag)
        ctx["run"]([binp, "blockcases", "--in", cp, "--out", rp_, "--t-us", str(t_us), "--par", "12"], cwd=d, timeout=900)
        obs.update({key(o): o for o in json.load(open(rp_))})
    def judge(k):
        """list of complaints about the observed outcome of case k against the model"""
        o = obs.get(k)
        (mres, mq), = model[k]
        if o is None:
            return ["case was not executed"]
        bad = []
        if o["res"] != mres:
            bad.append("outcome %s, the model says %s" % (o["res"], mres))
        if k[4] == "timed":
            tu = o.get("t_us", T_US)
            if o["res"] == "blocked" or o["us"] > tu + SLACK:
                bad.append("a call with a %d us timeout was not back after %d us" % (tu, tu + SLACK))
            if o["res"] == "timeout" and o["us"] < tu:
                bad.append("Timeout after %d us, before the %d us deadline" % (o["us"], tu))
            if o["res"] == "panic":
                bad.append("a timed call panicked")
        if o["res"] != "blocked" and mres != "blocked" and k[2] != "dead" and o["delivered"] != (1 if mq else 0):
            bad.append("message delivered %d times, the model says %s" % (o["delivered"], "queued" if mq else "not queued"))
        return bad
    viol = []
    checked = 0
    only_mode = st.get("only_mode")
    for k in sorted(model):
        if next(iter(model[k]))[0] == "panic":
            continue
        if only_mode and k[2] != only_mode:
            continue
        if only_mode:
            # both the call on the ActorRef and the one through the wrapper are judged against the model
            checked += 1
            b = judge(k)
            if b:
                viol.append((k, "; ".join(b) + " (observed %s)" % json.dumps(obs.get(k))))
            continue
        if pid == "C16":
            if k[5] != "erased":
                continue
            twin = k[:5] + ("direct",)
            checked += 1
            o, o2 = obs.get(k), obs.get(twin)
            same = o and o2 and o["res"] == o2["res"] and o["delivered"] == o2["delivered"] and \
                (abs(o["us"] - o2["us"]) <= SLACK)
            if not same and not judge(twin):
                why = "through the wrapper: %s; on the ActorRef: %s" % (json.dumps(o), json.dumps(o2))
                viol.append((k, why))
        else:
            if k[5] != "direct":
                continue
            checked += 1
            b = judge(k)
            if b:
                viol.append((k, "; ".join(b) + " (observed %s)" % json.dumps(obs.get(k))))
    vout = []
    for i, (k, why) in enumerate(viol[:10]):
        rp = ctx["save_replay"](pid, "blocking_cases", i, None, [dict(case=dict(zip(("ctx", "home", "mode", "api", "form", "via"), k)),
                                observed=obs.get(k), model=[list(x) for x in model[k]])], [why])
        vout.append(("blocking_cases", i, pid, "%s: %s" % ("/".join(k), why[:400]), rp))
    hist = {}
    for k in model:
        r = next(iter(model[k]))[0]
        hist[r] = hist.get(r, 0) + 1
    ctx["log"]("Blocking.tla: %d states, %d configurations (%s); %d executed on real threads, %d judged for %s, violations: %d"
               % (ds, len(model), hist, len(obs), checked, pid, len(viol)))
    return dict(coverage={"module": "Blocking", "states": ds, "configurations": len(model), "model_outcomes": hist,
                          "cases_executed": len(obs), "cases_judged": checked, "timeout_us": T_US, "timeout_us_thaw_mode": T_THAW, "slack_us": SLACK,
                          "deviations_refuted_by_tlc": ["HelperRt=ambient", "KeepsTimeout=FALSE", "OneDeadline=FALSE"]},
                violations=vout, traces=checked, states=ds, transitions=g,
                samples=[{"stage": "blocking_cases", "case": runnable[0]["cfg"], "model": runnable[0]["res"]}],
                nontrivial_keys=["blk_" + "_".join(k) for k in model if next(iter(model[k]))[0] != "panic"
                                 and ((k[2] == only_mode) if only_mode else ((k[5] == "erased") == (pid == "C16")))])


REPO_TEST_ENV = {"CARGO_TARGET_DIR": "/verif/harness/target_repotests", "CARGO_NET_OFFLINE": "true",
                 "RUSTFLAGS": "--cfg rsactor_verif --check-cfg cfg(rsactor_verif)"}
# tests of the repository's suite that park a handler for 10 - 120 s and then wait for the actor: thorough tier only
REPO_TEST_SLOW = ["blocking_timeout_expiry_tests", "actual_timeout_tests::test_ask_with_timeout_actually_times_out",
                  "blocking_timeout_tests::test_blocking_ask_with_timeout_expired", "blocking_timeout_tests::test_blocking_tell_with_timeout_expired",
                  "test_dead_letter_ask_with_timeout", "test_dead_letter_timeout_while_stopping", "test_dead_letter_with_timeout"]


def life_check(d, tr, tag, ctx):
    """sorts the hook log `tr` by (process, ticket), cuts it into chunks at actor boundaries (the rules of LifeTrace.tla are per
    actor) and folds each chunk through LifeTrace.tla, in parallel; returns (events, [(prop, why, line)])"""
    evs = [json.loads(l) for l in open(tr) if l.startswith("{")]
    evs.sort(key=lambda e: (e["pid"], e["t"]))
    with open(tr, "w") as f:
        for e in evs:
            f.write(json.dumps(e) + "\n")
    by_actor = {}
    for e in evs:
        by_actor.setdefault((e["pid"], e["id"]), []).append(e)
    chunks, cur = [], []
    for k in sorted(by_actor):
        cur.extend(by_actor[k])
        if len(cur) >= 40000:
            chunks.append(cur); cur = []
    if cur or not chunks:
        chunks.append(cur)
    open(os.path.join(d, "LifeTrace.cfg"), "w").write("SPECIFICATION Spec\nPOSTCONDITION Consumed\nCHECK_DEADLOCK FALSE\n")

    def one(ic):
        i, chunk = ic
        cp = os.path.join(d, "life_%s_chunk%d.ndjson" % (tag, i))
        with open(cp, "w") as f:
            for e in chunk:
                f.write(json.dumps(e) + "\n")
        e2 = dict(os.environ); e2["TRACE"] = cp
        e2["JAVA_TOOL_OPTIONS"] = "-Xss1g -Dtlc2.tool.queue.IStateQueue=StateDeque"
        q = subprocess.run(JAVA[:2] + ["-Xmx3g"] + JAVA[4:] + ["-workers", "1", "-checkpoint", "0", "-metadir", os.path.join(d, "meta_life_%s_%d" % (tag, i)),
                            "-noGenerateSpecTE", "-config", "LifeTrace.cfg", "LifeTrace.tla"], cwd=d, env=e2, text=True,
                           stdout=subprocess.PIPE, stderr=subprocess.STDOUT, timeout=3000)
        return i, q.stdout or ""
    bads = []
    with cf.ThreadPoolExecutor(max_workers=8) as ex:
        for i, o in ex.map(one, list(enumerate(chunks))):
            if "LIFECHECKED" not in o:
                open(os.path.join(d, "LifeTrace_%s.out" % tag), "w").write(o)
                raise ctx["ToolError"]("LifeTrace check did not complete (see LifeTrace_%s.out)" % tag)
            for line in o.splitlines():
                if "LIFEBAD" in line:
                    for (pp, why) in re.findall(r'<<\\?"(C\d\d)\\?", \\?"([^"\\]*)', line):
                        bads.append((pp, why, line))
    return evs, bads


def stage_repo_tests(pid, tier, seed, d, binp, st, ctx):
    """Implementation -> specification with the repository's OWN test suite as the driver: the suite is built from /repo's
    working tree with the lifecycle hooks on, every actor of every test logs its lifecycle events, and TLC (LifeTrace.tla)
    checks each actor's event sequence against the lifecycle of the specification.  Test verdicts are not looked at."""
    tr = os.path.join(d, "life_trace.ndjson")
    if os.path.exists(tr):
        os.remove(tr)
    env = dict(os.environ); env.update(REPO_TEST_ENV); env["RSACTOR_VERIF_TRACE"] = tr
    cmd = ["cargo", "test", "--workspace", "--offline", "--locked", "--all-features", "--tests", "--no-fail-fast", "--", "--test-threads", "8"]
    if tier == "quick":
        for t in REPO_TEST_SLOW:
            cmd += ["--skip", t]
    # a change under test may make tests of the suite hang or spin: the suite gets a time budget, is killed as a group when it
    # is used up, and whatever was logged until then is validated (every rule of LifeTrace.tla is a safety rule on prefixes)
    import signal
    budget = 420 if tier == "quick" else 1200
    pr = subprocess.Popen(cmd, cwd="/repo", env=env, text=True, stdout=subprocess.PIPE, stderr=subprocess.STDOUT, start_new_session=True)
    timed_out = False
    try:
        out, _ = pr.communicate(timeout=budget)
    except subprocess.TimeoutExpired:
        timed_out = True
        try:
            os.killpg(pr.pid, signal.SIGKILL)
        except ProcessLookupError:
            pass
        out, _ = pr.communicate()
    out = out or ""
    if timed_out:
        ctx["log"]("note: the repository's test suite did not finish within %d s and was stopped; the events logged so far are validated" % budget)
    if "error: could not compile" in out or "error[E" in out:
        open(os.path.join(d, "repo_tests.out"), "w").write(out[-30000:])
        raise ctx["ToolError"]("the repository's test suite does not build with the hooks on (see repo_tests.out)")
    ntests = sum(int(x) for x in re.findall(r"test result: \w+\. (\d+) passed", out))
    nfail = sum(int(x) for x in re.findall(r"test result: \w+\. \d+ passed; (\d+) failed", out))
    if not os.path.exists(tr) or ntests == 0:
        open(os.path.join(d, "repo_tests.out"), "w").write(out[-30000:])
        raise ctx["ToolError"]("the repository's test suite produced no lifecycle trace (see repo_tests.out)")
    evs, bads = life_check(d, tr, "repo", ctx)
    props = set(st.get("props", [pid]))
    mine = [b for b in bads if b[0] in props]
    viol = []
    for i, (pp, why, line) in enumerate(mine[:10]):
        m = re.search(r'LIFEBAD\\?", (\d+), (\d+)', line)
        key = (int(m.group(1)), int(m.group(2))) if m else None
        hist = [e for e in evs if key and (e["pid"], e["id"]) == key]
        rp = ctx["save_replay"](pid, "repo_tests", i, None, hist, [line[:600]])
        viol.append(("repo_tests", i, pp, why + " (an actor of the repository's own test suite; events in the replay file)", rp))
    actors = len({(e["pid"], e["id"]) for e in evs})
    other = sorted({b[0] for b in bads} - props)
    if other:
        ctx["log"]("note: the repository-test trace also breaks rules of %s (not this check's property)" % other)
    ctx["log"]("repository test suite with hooks: %d tests (%d failed), %d actors, %d lifecycle events, LifeTrace violations of %s: %d"
               % (ntests, nfail, actors, len(evs), sorted(props), len(mine)))
    return dict(coverage={"repo_tests_run": ntests, "repo_tests_failed": nfail, "actors": actors, "events": len(evs),
                          "slow_tests_skipped": REPO_TEST_SLOW if tier == "quick" else []},
                violations=viol, traces=actors,
                samples=[{"stage": "repo_tests", "first_events": evs[:6]}],
                nontrivial_keys=["life_actor_%d" % i for i in range(min(actors, 2000))])
