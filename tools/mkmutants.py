#!/usr/bin/env python3
"""Development-time calibration: build /verif/mutants/*.patch from edit specs (applied to a clean /repo
working tree, diffed, reverted)."""
import subprocess, os, sys
REPO="/repo"
M = {}
def m(name, file, old, new, expect):
    M.setdefault(name, dict(edits=[], expect=expect))["edits"].append((file, old, new))

m("m01_no_biased", "src/actor.rs", "            biased;\n", "", ["C06", "C08"])
m("m02_forget_idle_false", "src/actor.rs", "                        idle_enabled = false;\n", "", ["C08"])
m("m03_cap_plus_one", "src/lib.rs", "mpsc::channel(mailbox_capacity);", "mpsc::channel(mailbox_capacity + 1);", ["C09"])
m("m04_killed_false_on_stop_err", "src/actor.rs",
  """                        phase: FailurePhase::OnStop,
                        killed,
                    };""", """                        phase: FailurePhase::OnStop,
                        killed: false,
                    };""", ["C05"])
m("m05_timeout_doubled_tell", "src/actor_ref.rs", "let result = tokio::time::timeout(timeout, self.tell(msg))", "let result = tokio::time::timeout(timeout * 2, self.tell(msg))", ["C10"])
m("m06_no_deadletter_ask_recv", "src/actor_ref.rs",
  """            Err(_recv_err) => {
                crate::dead_letter::record::<M>(
                    self.identity(),
                    crate::dead_letter::DeadLetterReason::ReplyDropped,
                    "ask",
                );

                #[cfg(feature = "tracing")]
                warn!("Ask reply channel closed unexpectedly");""",
  """            Err(_recv_err) => {
                #[cfg(feature = "tracing")]
                warn!("Ask reply channel closed unexpectedly");""", ["C13"])
m("m07_double_deadletter_tell", "src/actor_ref.rs",
  """        let result = if self.sender.send(envelope).await.is_err() {
            crate::dead_letter::record::<M>(""",
  """        let result = if self.sender.send(envelope).await.is_err() {
            crate::dead_letter::record::<M>(
                self.identity(),
                crate::dead_letter::DeadLetterReason::ActorStopped,
                "tell",
            );
            crate::dead_letter::record::<M>(""", ["C13"])
m("m08_stop_try_send", "src/actor_ref.rs",
  """        match self
            .sender
            .send(MailboxMessage::StopGracefully(self.clone()))
            .await
        {
            Ok(_) => {""",
  """        match self
            .sender
            .try_send(MailboxMessage::StopGracefully(self.clone()))
        {
            Ok(_) => {""", ["C07"])
m("m09_on_stop_after_start_fail", "src/actor.rs",
  """            error!("Actor {actor_id} on_start failed: {e:?}");
            return ActorResult::Failed {""",
  """            error!("Actor {actor_id} on_start failed: {e:?}");
            receiver.close();
            return ActorResult::Failed {""", [])   # benign: closing early is not observable -> no alarm expected
m("m10_run_branch_first", "src/actor.rs", None, None, ["C08"])
m("m11_is_alive_mailbox_only", "src/actor_ref.rs", "!self.sender.is_closed() && !self.terminate_sender.is_closed()", "self.sender.strong_count() > 0", ["C11"])
m("m12_kill_blocks_when_full", "src/actor_ref.rs",
  """            Err(mpsc::error::TrySendError::Closed(_)) => {
                // The channel is closed, which implies the actor is already stopped or has finished processing.""",
  """            Err(mpsc::error::TrySendError::Closed(_)) => {
                return Err(Error::Send { identity: self.identity(), details: "closed".to_string() });
                #[allow(unreachable_code)]
                // The channel is closed, which implies the actor is already stopped or has finished processing.""", ["C06"])
m("m13_reply_before_handle_swapped_val", "src/lib.rs",
  "                match channel.send(Box::new(result)) {",
  "                drop(channel); match Err::<(), ()>(()) {", ["C03"])   # replies are never delivered
m("m14_ask_timeout_masks_error", "src/actor_ref.rs",
  """        let result = tokio::time::timeout(timeout, self.ask(msg))
            .await""",
  """        let result = tokio::time::timeout(timeout, async { let r = self.ask(msg).await; if r.is_err() { std::future::pending::<()>().await; } r })
            .await""", ["C10"])
m("m15_weak_upgrade_leaks", "src/actor.rs", "    drop(actor_ref); // Drop the strong reference to allow graceful shutdown detection\n", "    let _keep = actor_ref;\n", ["C07"])

def sh(*a, **k): return subprocess.run(a, check=True, text=True, capture_output=True, **k)

def main():
    out = "/verif/mutants"
    os.makedirs(out, exist_ok=True)
    st = subprocess.run(["git","-C",REPO,"status","--porcelain","--untracked-files=no"],capture_output=True,text=True).stdout.strip()
    if st:
        print("repo not clean"); sys.exit(1)
    import json
    meta = {}
    for name, spec in M.items():
        if name == "m10_run_branch_first":
            p = os.path.join(REPO, "src/actor.rs")
            s = open(p).read()
            start = s.index("            // Execute the actor's on_run method (idle handler) when enabled.")
            end = s.index("        }\n    }\n\n    // Cleanup: Close channels")
            block = s[start:end]
            s2 = s[:start] + s[end:]
            anchor = "            biased;\n\n"
            s2 = s2.replace(anchor, anchor + block + "\n", 1)
            open(p, "w").write(s2)
        else:
            for (f, old, new) in spec["edits"]:
                p = os.path.join(REPO, f)
                s = open(p).read()
                if s.count(old) < 1:
                    print("!! edit does not apply:", name); continue
                open(p, "w").write(s.replace(old, new, 1))
        d = subprocess.run(["git","-C",REPO,"diff"],capture_output=True,text=True).stdout
        open(os.path.join(out, name + ".patch"), "w").write(d)
        meta[name] = spec["expect"]
        sh("git","-C",REPO,"checkout","--",".")
    json.dump(meta, open(os.path.join(out, "expect.json"), "w"), indent=1)
    print("wrote", len(meta), "mutants")
main()
