#!/usr/bin/env python3
"""Orchestrator: /verif/check <ID> [--tier quick|thorough] [--replay PATH]

For property <ID>:
  1. rebuild the harness against /repo's current working tree (hooks on),
  2. model-check the TLA+ model (RsActor + Monitors) for the property's configurations,
  3. let TLC generate behaviours, replay them into the real code (channel A),
  4. let TLC evaluate the property monitors on the traces recorded from the code (channel B),
  5. property-specific extra stages (stress on real threads, enumerated oracles, ...),
  6. write evidence/<ID>.json, print VIOLATION / KNOWN-FINDING lines, set the exit code
     (0 held, 1 violation, 2 tool error).
"""
import json, os, re, shutil, subprocess, sys, time, hashlib, concurrent.futures as cf

VERIF = os.path.dirname(os.path.dirname(os.path.abspath(__file__)))
SPEC = os.path.join(VERIF, "spec")
HARNESS = os.path.join(VERIF, "harness")
WORK = os.path.join(VERIF, "work")
EVID = os.path.join(VERIF, "evidence")
REPLAYS = os.path.join(VERIF, "work", "replays")
NCPU = os.cpu_count() or 4

sys.path.insert(0, os.path.join(VERIF, "tools"))
from plans import PLANS, BASE, tla_value  # noqa: E402


class ToolError(Exception):
    pass


def log(*a):
    print("[check]", *a, file=sys.stderr, flush=True)


def run(cmd, cwd=None, env=None, timeout=None, check=True, capture=True):
    e = dict(os.environ)
    e.update({"CARGO_NET_OFFLINE": "true"})
    if env:
        e.update(env)
    try:
        p = subprocess.run(cmd, cwd=cwd, env=e, timeout=timeout, text=True,
                           stdout=subprocess.PIPE if capture else None,
                           stderr=subprocess.STDOUT if capture else None)
    except subprocess.TimeoutExpired as ex:
        raise ToolError("timeout: %s" % " ".join(cmd[:4])) from ex
    if check and p.returncode != 0:
        raise ToolError("command failed (%d): %s\n%s" % (p.returncode, " ".join(cmd[:6]), (p.stdout or "")[-3000:]))
    return p


# ------------------------------------------------------------------------------------------
# harness build

def feat_key(feats):
    return "default" if not feats else "_".join(sorted(feats))


def build_harness(feats):
    """Builds the harness for a feature set against /repo's working tree; returns the binary path."""
    key = feat_key(feats)
    cmd = ["cargo", "build", "--offline"]
    if feats:
        cmd += ["--features", ",".join(sorted(feats))]
    t0 = time.time()
    run(cmd, cwd=HARNESS, timeout=1800)
    src = os.path.join(HARNESS, "target", "debug", "vh")
    bindir = os.path.join(HARNESS, "bin")
    os.makedirs(bindir, exist_ok=True)
    dst = os.path.join(bindir, "vh-" + key)
    tmp = dst + ".tmp%d" % os.getpid()
    shutil.copy2(src, tmp)
    os.replace(tmp, dst)
    log("built harness [%s] in %.1fs" % (key, time.time() - t0))
    return dst


# ------------------------------------------------------------------------------------------
# TLC helpers

def write_cfg(path, consts, spec="Spec", invariants=(), extra=()):
    lines = ["SPECIFICATION %s" % spec, "CHECK_DEADLOCK FALSE"]
    if invariants:
        lines.append("INVARIANTS " + " ".join(invariants))
    lines += list(extra)
    lines.append("CONSTANTS")
    for k, v in consts.items():
        if k in ("ActorSeq", "ClientSeq"):
            lines.append("  %s <- k_%s" % (k, k))
        else:
            lines.append("  %s = %s" % (k, tla_value(v)))
    open(path, "w").write("\n".join(lines) + "\n")


def write_wrapper(path, module, base, consts):
    body = ["---- MODULE %s ----" % module, "EXTENDS %s" % base]
    for k in ("ActorSeq", "ClientSeq"):
        body.append("k_%s == %s" % (k, tla_value(consts[k], seq=True)))
    body.append("====")
    open(path, "w").write("\n".join(body) + "\n")


def prep_dir(d):
    shutil.rmtree(d, ignore_errors=True)
    os.makedirs(d)
    for f in os.listdir(SPEC):
        if f.endswith(".tla"):
            shutil.copy2(os.path.join(SPEC, f), d)


def tlc(d, module, cfg, args, timeout, heap="4g", env=None, workers=None):
    cmd = ["java", "-XX:+UseParallelGC", "-Xmx" + heap,
           "-cp", "/opt/veriftools/tla/tla2tools.jar:/opt/veriftools/tla/CommunityModules-deps.jar",
           "tlc2.TLC"] + args + ["-metadir", os.path.join(d, "meta_" + module + "_" + str(os.getpid())),
                                 "-noGenerateSpecTE", "-config", cfg, module + ".tla"]
    return run(cmd, cwd=d, env=env, timeout=timeout, check=False)


def parse_tlc_counts(out):
    m = re.findall(r"(\d[\d,]*) states generated, (\d[\d,]*) distinct states found", out)
    if not m:
        return 0, 0
    g, dst = m[-1]
    return int(dst.replace(",", "")), int(g.replace(",", ""))


def model_check(d, name, consts, invariants, timeout, workers):
    """Exhaustive TLC run of MC.tla with the monitors; returns dict(states, transitions, ok, out)."""
    mod = "MC_" + name
    write_wrapper(os.path.join(d, mod + ".tla"), mod, "MC", consts)
    cfg = os.path.join(d, mod + ".cfg")
    write_cfg(cfg, consts, invariants=invariants)
    t0 = time.time()
    p = tlc(d, mod, mod + ".cfg", ["-workers", str(workers)], timeout, heap="12g")
    out = p.stdout or ""
    states, trans = parse_tlc_counts(out)
    violated = re.findall(r"Invariant (\w+) is violated", out)
    complete = "Model checking completed" in out
    if not complete and not violated:
        open(os.path.join(d, mod + ".out"), "w").write(out)
        raise ToolError("TLC did not complete for %s (see %s.out)" % (mod, os.path.join(d, mod)))
    if violated:
        open(os.path.join(d, mod + ".out"), "w").write(out)
    cex = cex_to_schedule(out) if violated else None
    return dict(name=name, cex=cex, states=states, transitions=trans, violated=violated, wall_s=round(time.time() - t0, 1),
                constants={k: (sorted(v, key=str) if isinstance(v, (set, frozenset)) else v) for k, v in consts.items()})


CEX_RE = re.compile(r'^State \d+: <Apply\((\[.*?\])\) line', re.M)


def tla_record_to_dict(txt):
    """[a |-> "a1", cap |-> 2, c |-> "spawn"] -> dict (flat records of strings / ints / booleans)"""
    out = {}
    body = txt.strip()[1:-1]
    for part in re.findall(r'(\w+) \|-> ("(?:[^"\\]|\\.)*"|-?\d+|TRUE|FALSE)', body):
        k, v = part
        if v.startswith('"'):
            out[k] = v[1:-1]
        elif v in ("TRUE", "FALSE"):
            out[k] = v == "TRUE"
        else:
            out[k] = int(v)
    return out


def cex_to_schedule(out):
    """Command sequence of the (first) counterexample in a TLC error trace of MC.tla."""
    first = out.split("Error: Invariant", 2)
    if len(first) < 2:
        return None
    block = first[1]
    cmds = [tla_record_to_dict(m.group(1)) for m in CEX_RE.finditer(block)]
    return [{"cmd": c} for c in cmds] if cmds else None


def unescape(s):
    out = []
    i = 0
    while i < len(s):
        c = s[i]
        if c == "\\" and i + 1 < len(s):
            n = s[i + 1]
            out.append({"n": "\n", "t": "\t"}.get(n, n))
            i += 2
        else:
            out.append(c)
            i += 1
    return "".join(out)


def generate(d, name, consts, mode, num, depth, seed, timeout):
    """TLC behaviour generation (Gen.tla). mode: 'sim' (random behaviours) or 'bfs' (all paths)."""
    mod = "Gen_" + name
    c = dict(consts)
    c["Depth"] = depth
    write_wrapper(os.path.join(d, mod + ".tla"), mod, "Gen", c)
    write_cfg(os.path.join(d, mod + ".cfg"), c, invariants=["Emit"])
    scheds = []
    seen = set()

    def harvest(out):
        for line in out.splitlines():
            if line.startswith('<<"SCHED", "') and line.endswith('">>'):
                body = unescape(line[len('<<"SCHED", "'):-3])
                h = hashlib.sha1(body.encode()).digest()
                if h in seen:
                    continue
                seen.add(h)
                scheds.append(body)

    if mode == "bfs":
        p = tlc(d, mod, mod + ".cfg", ["-workers", str(min(NCPU, 8))], timeout, heap="8g")
        out = p.stdout or ""
        if "Model checking completed" not in out:
            open(os.path.join(d, mod + ".out"), "w").write(out)
            raise ToolError("TLC generation (bfs) did not complete for %s" % mod)
        harvest(out)
    else:
        # several independent simulations in parallel, deterministic per seed
        shards = min(NCPU, max(1, num // 150))
        per = (num + shards - 1) // shards

        def one(i):
            p = tlc(d, mod, mod + ".cfg",
                    ["-workers", "1", "-simulate", "num=%d" % per, "-depth", str(depth + 1),
                     "-seed", str(seed * 1000 + i)], timeout, heap="2g")
            return p.stdout or ""
        with cf.ThreadPoolExecutor(max_workers=shards) as ex:
            outs = list(ex.map(one, range(shards)))
        for o in outs:
            if "Error:" in o and "SCHED" not in o:
                open(os.path.join(d, mod + ".out"), "w").write(o)
                raise ToolError("TLC simulation failed for %s (see %s.out)" % (mod, mod))
            harvest(o)
    if not scheds:
        raise ToolError("TLC generated no behaviours for %s" % mod)
    path = os.path.join(d, "sched_%s.ndjson" % name)
    with open(path, "w") as f:
        for s in scheds:
            f.write(s + "\n")
    return path, len(scheds)


def replay(binpath, sched_path, d, tag, via=None):
    tr = os.path.join(d, "trace_%s.ndjson" % tag)
    rep = os.path.join(d, "report_%s.json" % tag)
    cmd = [binpath, "replay", "--in", sched_path, "--out", tr, "--report", rep]
    if via:
        cmd += ["--via", via]
    run(cmd, cwd=d, timeout=1800)
    return tr, json.load(open(rep))


def split_trace(trace_path, d, tag, parts):
    """Split an event trace into `parts` files on Reset boundaries; returns list of (file, [run ids])."""
    runs = []
    cur = None
    with open(trace_path) as f:
        for line in f:
            if '"e":"Reset"' in line or '"e": "Reset"' in line:
                cur = []
                runs.append(cur)
            if cur is None:
                continue
            cur.append(line)
    parts = max(1, min(parts, len(runs)))
    files = []
    per = (len(runs) + parts - 1) // parts
    for i in range(parts):
        chunk = runs[i * per:(i + 1) * per]
        if not chunk:
            continue
        p = os.path.join(d, "chunk_%s_%d.ndjson" % (tag, i))
        with open(p, "w") as o:
            for r in chunk:
                o.writelines(r)
        files.append(p)
    return files, len(runs), sum(len(r) for r in runs)


CRASH_RE = re.compile(r'^"?<<\\?"CRASHED\\?", (\d+)>>"?$')
LAST_CRASHED = set()   # run ids in which some actor failed or panicked (filled by the latest trace_monitor call)
BAD_RE = re.compile(r'^"?<<\\?"BAD\\?", (\d+), (\d+), \{(.*)\}>>"?$')
PAIR_RE = re.compile(r'<<\\?"(C\d+)\\?", \\?"([^"\\]*)\\?">>')


def trace_monitor(d, files, timeout=900):
    """Run TraceMon.tla over each chunk (in parallel); returns list of (run, line, prop, why)."""
    LAST_CRASHED.clear()
    cfgp = os.path.join(d, "TraceMon.cfg")
    open(cfgp, "w").write("SPECIFICATION Spec\nPOSTCONDITION Consumed\nCHECK_DEADLOCK FALSE\n")

    def one(path):
        env = {"TRACE": path, "JAVA_TOOL_OPTIONS": "-Dtlc2.tool.queue.IStateQueue=StateDeque"}
        cmd = ["java", "-XX:+UseParallelGC", "-Xmx3g", "-Xss1g",
               "-cp", "/opt/veriftools/tla/tla2tools.jar:/opt/veriftools/tla/CommunityModules-deps.jar",
               "tlc2.TLC", "-workers", "1", "-metadir", path + ".meta", "-noGenerateSpecTE",
               "-config", "TraceMon.cfg", "TraceMon.tla"]
        p = run(cmd, cwd=d, env=env, timeout=timeout, check=False)
        out = p.stdout or ""
        if "UNCONSUMED" in out or "Model checking completed" not in out:
            open(path + ".tm.out", "w").write(out)
            raise ToolError("TraceMon did not consume %s (see %s.tm.out)" % (path, path))
        bads = []
        for line in out.splitlines():
            m = BAD_RE.match(line.strip())
            if m:
                for pm in PAIR_RE.finditer(m.group(3)):
                    bads.append((int(m.group(1)), int(m.group(2)), pm.group(1), pm.group(2)))
            else:
                c = CRASH_RE.match(line.strip())
                if c:
                    LAST_CRASHED.add(int(c.group(1)))
        shutil.rmtree(path + ".meta", ignore_errors=True)
        return bads
    allb = []
    with cf.ThreadPoolExecutor(max_workers=min(NCPU, max(1, len(files)))) as ex:
        for b in ex.map(one, files):
            allb += b
    return allb


CONF_RE = re.compile(r'^"<<\\"DRIFT\\", (\d+), (\d+), (.*)>>"$')


def trace_conform(d, name, consts, trace_path):
    """TLC (TraceConf.tla): is the recorded trace, command by command, a behaviour of RsActor.tla?
    Returns the list of (run, text) where the code's events differ from the model's."""
    mod = "Conf_" + name
    write_wrapper(os.path.join(d, mod + ".tla"), mod, "TraceConf", consts)
    write_cfg(os.path.join(d, mod + ".cfg"), consts)
    files, nruns, nev = split_trace(trace_path, d, "conf_" + name, NCPU if os.path.getsize(trace_path) > 4_000_000 else 1)

    def one(path):
        env = {"TRACE": path, "JAVA_TOOL_OPTIONS": "-Dtlc2.tool.queue.IStateQueue=StateDeque"}
        cmd = ["java", "-XX:+UseParallelGC", "-Xmx3g", "-Xss1g",
               "-cp", "/opt/veriftools/tla/tla2tools.jar:/opt/veriftools/tla/CommunityModules-deps.jar",
               "tlc2.TLC", "-workers", "1", "-metadir", path + ".cmeta", "-noGenerateSpecTE",
               "-config", mod + ".cfg", mod + ".tla"]
        p = run(cmd, cwd=d, env=env, timeout=3600, check=False)
        out = p.stdout or ""
        shutil.rmtree(path + ".cmeta", ignore_errors=True)
        if "CONFDONE" not in out:
            open(os.path.join(d, mod + ".out"), "w").write(out)
            raise ToolError("TraceConf did not complete for %s (see %s.out)" % (name, mod))
        res = []
        for line in out.splitlines():
            m = CONF_RE.match(line.strip())
            if m:
                res.append((int(m.group(1)), m.group(3).replace('\\"', '"')[:700]))
        return res
    drifts = []
    with cf.ThreadPoolExecutor(max_workers=min(NCPU, max(1, len(files)))) as ex:
        for r in ex.map(one, files):
            drifts += r
    return drifts


DIFF_RE = re.compile(r'^"<<\\"(DIFF|SKIP|COMPARED)\\", (\d+), (.*)>>"$')


def trace_equal(d, trace_a, trace_b, mode, tag):
    """TLC (TraceEq.tla) compares two traces run by run; returns (diffs [(run, text)], skipped, compared)."""
    open(os.path.join(d, "TraceEq.cfg"), "w").write("\n")
    # the schedules compared here are cycle-free by construction (AvoidCycles, or counterexamples to "panic only on a
    # real cycle"), so a deadlock panic in the feature build is a difference, never skipped
    env = {"TRACE": trace_a, "TRACE2": trace_b, "EQMODE": mode, "EQSKIP": "none"}
    cmd = ["java", "-XX:+UseParallelGC", "-Xmx6g", "-Xss1g",
           "-cp", "/opt/veriftools/tla/tla2tools.jar:/opt/veriftools/tla/CommunityModules-deps.jar",
           "tlc2.TLC", "-workers", "1", "-metadir", os.path.join(d, "meta_eq_" + tag), "-noGenerateSpecTE",
           "-config", "TraceEq.cfg", "TraceEq.tla"]
    p = run(cmd, cwd=d, env=env, timeout=1800, check=False)
    out = p.stdout or ""
    diffs, skipped, compared = [], 0, 0
    for line in out.splitlines():
        m = DIFF_RE.match(line.strip())
        if not m:
            continue
        if m.group(1) == "DIFF":
            diffs.append((int(m.group(2)), m.group(3).replace('\\"', '"')[:600]))
        elif m.group(1) == "SKIP":
            skipped += 1
        else:
            compared = int(m.group(2))
    if compared == 0:
        open(os.path.join(d, "TraceEq_%s.out" % tag), "w").write(out)
        raise ToolError("TraceEq did not complete (%s)" % tag)
    return diffs, skipped, compared


# ------------------------------------------------------------------------------------------
# evidence helpers

def load_runs(trace_path):
    runs = {}
    cur = None
    with open(trace_path) as f:
        for line in f:
            ev = json.loads(line)
            if ev.get("e") == "Reset":
                cur = []
                runs[ev["run"]] = cur
            if cur is not None:
                cur.append(ev)
    return runs


def commands_of(events):
    return [e["cmd"] for e in events if e.get("e") == "Cmd"]


def save_replay(pid, tag, run_id, sched_line, events, bads):
    os.makedirs(REPLAYS, exist_ok=True)
    path = os.path.join(REPLAYS, "%s_%s_run%d.json" % (pid, tag, run_id))
    json.dump({"property": pid, "stage": tag, "run": run_id, "violations": bads,
               "schedule": json.loads(sched_line) if sched_line else None, "trace": events},
              open(path, "w"))
    return path


def load_known():
    p = os.path.join(VERIF, "known_findings.json")
    if not os.path.exists(p):
        return []
    return json.load(open(p)).get("findings", [])


def main():
    import argparse
    ap = argparse.ArgumentParser()
    ap.add_argument("pid")
    ap.add_argument("--tier", default=os.environ.get("VERIF_TIER", "quick"))
    ap.add_argument("--replay", default=None)
    args = ap.parse_args()
    pid = args.pid
    tier = args.tier if args.tier in ("quick", "thorough") else "quick"
    seed = int(os.environ.get("VERIF_SEED", "1") or "1")
    if pid not in PLANS:
        print("unknown property", pid)
        sys.exit(2)
    plan = PLANS[pid]
    t0 = time.time()
    d = os.path.join(WORK, "%s_%s" % (pid, tier))
    prep_dir(d)
    os.makedirs(EVID, exist_ok=True)
    evid_path = os.path.join(EVID, pid + ".json")
    try:
        if args.replay:
            rc = do_replay_file(pid, plan, args.replay, d)
            sys.exit(rc)
        rc = do_check(pid, plan, tier, seed, d, evid_path, t0)
    except ToolError as e:
        print("TOOL-ERROR property=%s %s" % (pid, e))
        sys.exit(2)
    sys.exit(rc)


def do_replay_file(pid, plan, path, d):
    data = json.load(open(path))
    sched = data.get("schedule")
    if sched is None:
        print("replay file has no schedule")
        return 2
    binp = build_harness(plan.get("feats", []))
    sp = os.path.join(d, "sched_replay.ndjson")
    open(sp, "w").write(json.dumps(sched) + "\n")
    tr, rep = replay(binp, sp, d, "replay")
    files, nruns, nev = split_trace(tr, d, "replay", 1)
    bads = [b for b in trace_monitor(d, files) if b[2] == pid or (pid == "C12")]
    for b in bads:
        print("run=%d line=%d %s: %s" % b)
    if bads:
        print("VIOLATION property=%s replay=%s" % (pid, path))
        return 1
    print("no violation of %s on replay" % pid)
    return 0


def do_check(pid, plan, tier, seed, d, evid_path, t0):
    T = plan[tier]
    feats = plan.get("feats", [])
    binp = build_harness(feats)
    violations = []      # (stage, run, prop, why, replay_path)
    pair_stats = []
    conf_stats = []
    cex_scheds = []      # counterexamples of "finding" model configs, replayed into the code below
    mc_results = []
    total_states = total_trans = 0
    # ---- model checking -------------------------------------------------------------
    for mc in T.get("mc", []):
        consts = dict(BASE)
        consts.update(mc["consts"])
        r = model_check(d, mc["name"], consts, (mc.get("invariants") or plan["invariants"]) + ["PermitConservation", "WaitersOnlyWhenFull"],
                        timeout=mc.get("timeout", 900), workers=mc.get("workers", NCPU))
        mc_results.append(r)
        total_states += r["states"]
        total_trans += r["transitions"]
        if mc.get("expect_violation") and not r["violated"]:
            raise ToolError("finding config %s was expected to violate an invariant in the model but did not" % mc["name"])
        if r["violated"]:
            if mc.get("expect_violation"):
                log("model config %s violates %s as expected (%d-step counterexample)" %
                    (mc["name"], r["violated"], len(r["cex"] or [])))
                if r["cex"]:
                    cex_scheds.append((mc["name"], r["cex"], mc.get("cex_pairs", [])))
            else:
                raise ToolError("MODEL FAILURE: invariant %s violated in the model itself (config %s); "
                                "the model or the monitor is wrong -- see %s" % (r["violated"], mc["name"], d))
        log("model-checked %s: %d states, %d transitions, %.1fs" % (mc["name"], r["states"], r["transitions"], r["wall_s"]))
    traces = 0
    events = 0
    drift = 0
    first_drifts = []
    nontrivial = set()
    samples = []
    # ---- counterexamples of finding configs: does the real code do what the (defective) model does?
    for (name, steps, cpairs) in cex_scheds:
        sp = os.path.join(d, "sched_cex_%s.ndjson" % name)
        open(sp, "w").write(json.dumps(steps) + "\n")
        tr, rep = replay(binp, sp, d, "cex_" + name)
        for pr in cpairs:
            bin2 = build_harness(pr["feats"])
            label = feat_key(pr["feats"])
            tr2, rep2 = replay(bin2, sp, d, "cex_" + name + "_" + label)
            diffs, skipped, compared = trace_equal(d, tr, tr2, "behaviour", "cex_" + name + "_" + label)
            pair_stats.append({"stage": "cex_" + name, "against": label, "runs_compared": compared,
                               "skipped_ask_cycle": skipped, "differing": len(diffs)})
            traces += compared
            for (rid, text) in diffs[:3]:
                rp = save_replay(pid, "cex_" + name + "_" + label, rid, json.dumps(steps),
                                 {"reference": load_runs(tr).get(rid, []), "other": load_runs(tr2).get(rid, [])}, [text])
                violations.append(("cex_" + name + "_" + label, rid, pid, "trace differs from the reference execution: " + text[:300], rp))
            log("counterexample of %s: default vs %s: %d differ" % (name, label, len(diffs)))
        files, nruns, nev = split_trace(tr, d, "cex_" + name, 1)
        traces += nruns
        events += nev
        bads = trace_monitor(d, files)
        runs = load_runs(tr)
        mine = [b for b in bads if b[2] == pid or (pid == "C12" and plan.get("c12_all"))]
        if mine:
            rp = save_replay(pid, "cex_" + name, 1, json.dumps(steps), runs.get(1, []), bads)
            violations.append(("cex_" + name, 1, mine[0][2], mine[0][3], rp))
        samples.append({"stage": "cex_" + name, "run": 1, "commands": [x["cmd"] for x in steps]})
        nontrivial.add("cex_" + name)
        log("counterexample of %s replayed into the code: %s" % (name, "code exhibits it: %s" % mine[0][3] if mine else "code does not exhibit it"))
    # ---- generation + replay + trace validation ---------------------------------------
    for g in T.get("gen", []):
        consts = dict(BASE)
        consts.update(g["consts"])
        sp, n = generate(d, g["name"], consts, g.get("mode", "sim"), g.get("num", 300), g.get("depth", 30),
                         seed, g.get("timeout", 900))
        tr, rep = replay(binp, sp, d, g["name"])
        drift += rep["drift"]
        first_drifts += rep["first_drifts"][:2]
        # whole-trace conformance (including the harness's own run to quiescence), decided by TLC
        cd = trace_conform(d, g["name"], {k: v for k, v in consts.items()}, tr)
        conf_stats.append({"stage": g["name"], "runs_not_conforming": len({r for r, _ in cd}),
                           "first": [t for _, t in cd[:1]]})
        if cd:
            log("WARNING stage %s: %d runs are not behaviours of RsActor.tla (TraceConf), e.g. %s" %
                (g["name"], len({r for r, _ in cd}), cd[0][1][:300]))
        files, nruns, nev = split_trace(tr, d, g["name"], NCPU)
        traces += nruns
        events += nev
        bads = trace_monitor(d, files)
        json.dump(bads, open(os.path.join(d, "bads_%s.json" % g["name"]), "w"))
        runs = load_runs(tr)
        sched_lines = open(sp).read().splitlines()
        nt = plan.get("nontrivial")
        for rid, evs in runs.items():
            if nt is None or nt(evs):
                key = hashlib.sha1(json.dumps(commands_of(evs), sort_keys=True).encode()).hexdigest()
                nontrivial.add(key)
                if len(samples) < 3:
                    samples.append({"stage": g["name"], "run": rid, "commands": commands_of(evs)[:40]})
        mine = [b for b in bads if b[2] == pid or (pid == "C12" and plan.get("c12_all") and b[0] in LAST_CRASHED)]
        seen_runs = set()
        for (rid, line, prop, why) in mine:
            if rid in seen_runs:
                continue
            seen_runs.add(rid)
            if len(seen_runs) > 10:
                continue      # enough replay files for one stage
            sl = sched_lines[rid - 1] if 0 < rid <= len(sched_lines) else None
            rp = save_replay(pid, g["name"], rid, sl, runs.get(rid, []), [b for b in bads if b[0] == rid])
            violations.append((g["name"], rid, prop, why, rp))
        # ---- paired execution of the same schedules (C16: erased handles, C18: feature sets) ----
        for pr in g.get("pairs", []):
            if pr["kind"] == "erased":
                tr2, rep2 = replay(binp, sp, d, g["name"] + "_erased", via="erased")
                mode, label = "exact", "erased"
            else:
                bin2 = build_harness(pr["feats"])
                label = feat_key(pr["feats"])
                tr2, rep2 = replay(bin2, sp, d, g["name"] + "_" + label)
                mode = "behaviour"
            diffs, skipped, compared = trace_equal(d, tr, tr2, mode, g["name"] + "_" + label)
            runs2 = load_runs(tr2)
            traces += compared
            pair_stats.append({"stage": g["name"], "against": label, "runs_compared": compared,
                               "skipped_ask_cycle": skipped, "differing": len(diffs)})
            for (rid, text) in diffs[:20]:
                sl = sched_lines[rid - 1] if 0 < rid <= len(sched_lines) else None
                rp = save_replay(pid, g["name"] + "_" + label, rid, sl,
                                 {"reference": runs.get(rid, []), "other": runs2.get(rid, [])}, [text])
                violations.append((g["name"] + "_" + label, rid, pid, "trace differs from the reference execution: " + text[:300], rp))
            log("stage %s vs %s: %d runs compared, %d skipped (ask cycle), %d differ" % (g["name"], label, compared, skipped, len(diffs)))
        others = sorted({b[2] for b in bads if b[2] != pid})
        if others:
            log("note: stage %s also saw violations of %s (not this check's property)" % (g["name"], others))
        log("stage %s: %d behaviours replayed, %d events, drift=%d, %s violations=%d" %
            (g["name"], nruns, nev, rep["drift"], pid, len(seen_runs)))
    # ---- extra stages ------------------------------------------------------------------
    extra_cov = {}
    for st in T.get("extra", []):
        ctx = {"nontrivial": plan.get("nontrivial"), "crashed": LAST_CRASHED, "ToolError": ToolError, "run": run, "save_replay": save_replay, "log": log,
               "build_harness": build_harness, "trace_monitor": trace_monitor, "split_trace": split_trace,
               "load_runs": load_runs, "NCPU": NCPU}
        res = st["fn"](pid, tier, seed, d, binp, st, ctx)
        extra_cov[st["name"]] = res.get("coverage", {})
        for v in res.get("violations", []):
            violations.append(v)
        traces += res.get("traces", 0)
        total_states += res.get("states", 0)
        total_trans += res.get("transitions", 0)
        for s in res.get("samples", [])[:2]:
            samples.append(s)
        for k in res.get("nontrivial_keys", []):
            nontrivial.add(k)
    # ---- verdict --------------------------------------------------------------------------
    known = [k for k in load_known() if k.get("property") == pid and k.get("kind") == "known"]
    real = []
    for v in violations:
        matched = None
        for k in known:
            if re.search(k["signature"], v[3]):
                matched = k
                break
        if matched:
            print("KNOWN-FINDING: property=%s %s" % (pid, matched["description"]))
        else:
            real.append(v)
    if drift:
        log("WARNING model drift: %d behaviours where the code's observation differs from the model's prediction" % drift)
    ev = {
        "property_id": pid, "tier": tier, "seed": seed, "level": "model_checking",
        "coverage": {
            "states": max(total_states, 0), "transitions": max(total_trans, 0),
            "traces_validated_against_impl": traces,
            "evaluations": traces, "distinct_nontrivial": len(nontrivial),
            "rule": plan.get("rule", ""),
            "samples": samples if samples else [{"note": "no behaviour sample recorded"}],
            "events_validated": events, "model_drift": drift, "first_drifts": first_drifts[:2],
            "model_configs": mc_results, "extra": extra_cov, "paired_executions": pair_stats, "trace_conformance": conf_stats,
            "exhaustive": False,
        },
        "assumptions": plan.get("assumptions", []) + [
            "tokio 1.49 mpsc/semaphore/oneshot/timer semantics as abstracted in spec/RsActor.tla (kept honest by drift detection on every replay)",
            "scripted actors and client wrappers of /verif/harness log what they do faithfully",
        ],
        "wall_s": round(time.time() - t0, 1),
        "violations": len(real),
    }
    if ev["coverage"]["states"] < 1:
        ev["coverage"]["states"] = 0
    json.dump(ev, open(evid_path, "w"), indent=1)
    if real:
        for v in real[:5]:
            print("VIOLATION property=%s replay=%s" % (pid, v[4]))
            print("  stage=%s run=%s: %s" % (v[0], v[1], v[3]))
        return 1
    print("OK property=%s tier=%s traces=%d states=%d drift=%d wall=%.0fs" %
          (pid, tier, traces, total_states, drift, time.time() - t0))
    return 0


if __name__ == "__main__":
    main()
