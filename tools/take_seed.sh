#!/bin/sh
# usage: take_seed.sh <PID> [suffix] : collect a sub-agent's seeded change from /tmp/wt_<PID>, drop its worktree, verify it
P=$1; SUF=${2:-}; d=/verif/seeded/S_$P$SUF; mkdir -p $d
cp /tmp/wt_$P/seeded_patch.diff $d/patch.diff && cp /tmp/wt_$P/tests/seeded_demo.rs $d/seeded_demo.rs && cp /tmp/wt_$P/seeded_meta.json $d/agent_meta.json
git -C /repo worktree remove --force /tmp/wt_$P
/verif/tools/verify_seed.sh S_$P$SUF
