#!/usr/bin/env python3
"""Development aid: run every thorough-tier exhaustive config with a time cap and report its size."""
import sys, os, time
sys.path.insert(0, os.path.dirname(os.path.abspath(__file__)))
import check as C
from plans import PLANS, BASE
only = sys.argv[1:]
d = os.path.join(C.WORK, "size_mc"); C.prep_dir(d)
seen = set()
for pid, plan in sorted(PLANS.items()):
    if only and pid not in only: continue
    for mc in plan["thorough"].get("mc", []):
        if mc["name"] in seen: continue
        seen.add(mc["name"])
        consts = dict(BASE); consts.update(mc["consts"])
        t0 = time.time()
        try:
            r = C.model_check(d, mc["name"], consts, plan["invariants"], timeout=int(os.environ.get("CAP", "400")), workers=16)
            print("%s %-18s states=%-9d trans=%-9d %.0fs violated=%s" % (pid, mc["name"], r["states"], r["transitions"], time.time() - t0, r["violated"]), flush=True)
        except C.ToolError as e:
            print("%s %-18s TOO BIG / error after %.0fs: %s" % (pid, mc["name"], time.time() - t0, str(e)[:80]), flush=True)
