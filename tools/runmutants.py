#!/usr/bin/env python3
"""Calibration: apply each mutant patch to /repo, run selected checks, revert. Usage:
   runmutants.py [--all-props] [--dir /verif/mutants] [name ...]"""
import subprocess, sys, os, json, time
REPO="/repo"
args = sys.argv[1:]
allp = "--all-props" in args
nocontrol = "--no-control" in args
args = [a for a in args if a not in ("--all-props", "--no-control")]
mdir = "/verif/mutants"
if "--dir" in args:
    i = args.index("--dir"); mdir = args[i+1]; del args[i:i+2]
st = subprocess.run(["git","-C",REPO,"status","--porcelain","--untracked-files=no"],capture_output=True,text=True).stdout.strip()
if st:
    print("refusing to run: /repo has uncommitted changes (they would be wiped):\n" + st); sys.exit(1)
expect = json.load(open(os.path.join(mdir, "expect.json")))
names = args or sorted(expect)
sys.path.insert(0, "/verif/tools")
from plans import PLANS
res = {}
for n in names:
    patch = os.path.join(mdir, n + ".patch")
    subprocess.run(["git","-C",REPO,"checkout","--","."],check=True)
    r = subprocess.run(["git","-C",REPO,"apply",patch],capture_output=True,text=True)
    if r.returncode != 0:
        print(n, "PATCH DOES NOT APPLY", r.stderr); continue
    props = sorted(PLANS) if allp else sorted(set(expect[n]) | (set() if nocontrol else {"C01"}))
    row = {}
    for p in props:
        if p not in PLANS: row[p] = "n/a"; continue
        t0 = time.time()
        c = subprocess.run(["/verif/check", p, "--tier", "quick"], capture_output=True, text=True)
        out = c.stdout
        tag = {0: "ok", 1: "VIOLATION", 2: "TOOLERR"}.get(c.returncode, str(c.returncode))
        why = [l.strip() for l in out.splitlines() if l.startswith("  stage=")][:1]
        drift = [l for l in c.stderr.splitlines() if "WARNING model drift" in l]
        row[p] = tag + (" drift" if drift else "") + (" | " + why[0] if why else "") + (" | " + out.strip().splitlines()[-1][:200] if tag == "TOOLERR" else "")
        print("%-36s %s %-4s %s (%.0fs)" % (n, "EXPECT" if p in expect[n] else "      ", p, row[p], time.time()-t0), flush=True)
    res[n] = row
    subprocess.run(["git","-C",REPO,"checkout","--","."],check=True)
json.dump(res, open("/verif/work/mutant_results.json","w"), indent=1)
