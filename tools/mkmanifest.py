#!/usr/bin/env python3
"""Regenerates /verif/MANIFEST.json from tools/plans.py + tools/manifest_texts.py."""
import json, sys, os
sys.path.insert(0, os.path.dirname(os.path.abspath(__file__)))
from plans import PLANS
from manifest_texts import TEXTS, NOT_APPLICABLE, HOOK_COMMITS, FIX_COMMITS
props = [json.loads(l)["id"] for l in open("/verif/properties.jsonl")]
checks = []
for p in props:
    if p not in PLANS or p not in TEXTS:
        continue
    t = TEXTS[p]
    checks.append({
        "property_id": p,
        "quick_cmd": "./check %s --tier quick" % p,
        "thorough_cmd": "./check %s --tier thorough" % p,
        "evidence_file": "/verif/evidence/%s.json" % p,
        "replay_cmd_template": "./check %s --replay {path}" % p,
        "engine": "tla-replay",
        "level_claimed": {"category": "model_checking", "text": t["text"], "design_ref": t.get("design_ref", "DESIGN.md §5")},
        "level_note": t["note"],
        "technique": t.get("technique", "explicit TLA+ model (TLC) + TLC-generated behaviours replayed into the code + TLC trace validation with the property monitor"),
    })
na = [{"property_id": p, "reason": NOT_APPLICABLE.get(p, "check under construction (framework being built in this round)")}
      for p in props if p not in {c["property_id"] for c in checks}]
m = {
    "version": 1,
    "setup_cmd": "cd /verif/harness && cargo build --offline && cargo build --offline --features test-utils && cargo build --offline --features deadlock-detection && cargo build --offline --features metrics && cargo build --offline --features deadlock-detection,test-utils && cargo build --offline --features tracing,metrics,test-utils,deadlock-detection && cargo build --offline && cd /repo && CARGO_TARGET_DIR=/verif/harness/target_repotests RUSTFLAGS='--cfg rsactor_verif --check-cfg cfg(rsactor_verif)' cargo test --workspace --offline --locked --all-features --tests --no-run",
    "hooks": {"guard": "--cfg rsactor_verif",
              "enable": "rustflags in /verif/harness/.cargo/config.toml: --cfg rsactor_verif (the harness depends on /repo by path, so every check rebuilds the current working tree with the hooks on); the repository's own test suite is built the same way (RUSTFLAGS, target dir /verif/harness/target_repotests) and logs lifecycle events when RSACTOR_VERIF_TRACE names a file",
              "baseline_off_cmd": "cd /repo && cargo test --workspace --no-fail-fast --offline",
              "source_commits": HOOK_COMMITS, "add_only": True},
    "engines": [
        {"name": "tla-replay", "path": "/verif/tools/check.py", "serves_properties": [c["property_id"] for c in checks],
         "kind_free_text": "TLC model checking of spec/RsActor.tla with spec/Monitors.tla; TLC-generated behaviours (spec/Gen.tla) replayed by /verif/harness into the real rsactor; recorded traces judged by TLC (spec/TraceMon.tla)"},
    ],
    "checks": checks,
    "not_applicable": na,
    "notes": "See DESIGN.md. Exit codes: 0 held, 1 violation (VIOLATION line), 2 tool error. Genuine defects repaired in /repo by fix: commits %s (recorded in known_findings.json)." % ", ".join(FIX_COMMITS),
}
json.dump(m, open("/verif/MANIFEST.json", "w"), indent=1)
print("checks:", [c["property_id"] for c in checks], "n/a:", [x["property_id"] for x in na])
