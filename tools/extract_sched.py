#!/usr/bin/env python3
"""Extract <<"SCHED", "<json>">> lines printed by TLC into NDJSON (one schedule per line)."""
import sys, json

def unescape(s):
    out = []
    i = 0
    while i < len(s):
        c = s[i]
        if c == '\\' and i + 1 < len(s):
            n = s[i + 1]
            if n == '"': out.append('"')
            elif n == '\\': out.append('\\')
            elif n == 'n': out.append('\n')
            elif n == 't': out.append('\t')
            else: out.append(n)
            i += 2
        else:
            out.append(c)
            i += 1
    return ''.join(out)

def main():
    src, dst = sys.argv[1], sys.argv[2]
    tag = sys.argv[3] if len(sys.argv) > 3 else "SCHED"
    prefix = '<<"%s", "' % tag
    seen = set()
    n = 0
    with open(src) as f, open(dst, 'w') as o:
        for line in f:
            line = line.rstrip('\n')
            if not line.startswith(prefix) or not line.endswith('">>'):
                continue
            body = unescape(line[len(prefix):-3])
            if body in seen:
                continue
            seen.add(body)
            json.loads(body)  # validate
            o.write(body + '\n')
            n += 1
    print(n)

if __name__ == '__main__':
    main()
