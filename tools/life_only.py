#!/usr/bin/env python3
"""Applies each given seeded change to /repo, runs only the repository-test / LifeTrace stage, undoes the change.
Shows what that channel alone sees (calibration)."""
import sys, os, json, subprocess, shutil
sys.path.insert(0, "/verif/tools")
import stages
REPO = "/repo"
if subprocess.run(["git", "-C", REPO, "status", "--porcelain", "--untracked-files=no"], capture_output=True, text=True).stdout.strip():
    print("refusing: /repo dirty"); sys.exit(1)
class TE(Exception): pass
for sid in sys.argv[1:]:
    patch = "/verif/seeded/%s/patch.diff" % sid
    d = "/verif/work/life_only"; shutil.rmtree(d, ignore_errors=True); os.makedirs(d)
    shutil.copy("/verif/spec/LifeTrace.tla", d)
    if sid != "CLEAN":
        r = subprocess.run(["git", "-C", REPO, "apply", patch], capture_output=True, text=True)
        if r.returncode: print(sid, "NOAPPLY"); continue
    logs = []
    try:
        ctx = dict(ToolError=TE, log=logs.append, save_replay=lambda *a: "-")
        try:
            res = stages.stage_repo_tests("Cxx", "quick", 1, d, None, dict(props=["C04","C05","C06","C08","C11","C12"]), ctx)
            print(sid, sorted({(v[2], v[3][:90]) for v in res["violations"]}), logs[-1][-120:])
        except TE as e:
            print(sid, "TOOL", e)
    finally:
        subprocess.run(["git", "-C", REPO, "checkout", "--", "."], check=True)
