//! Channel C: seeded random workloads on a real multi-thread runtime plus plain OS threads
//! (blocking API).  Every event carries a ticket from one global atomic counter, taken before
//! a call starts and after it returns, and inside hooks at entry/exit, so the merged order is
//! consistent with real time.  Traces are judged by the same TLA+ monitors (strict = FALSE).

use crate::log::{register_id, CUR_OP, LOG, TICKETS, USE_TICKETS};
use rand::rngs::StdRng;
use rand::{Rng, SeedableRng};
use rsactor::{Actor, ActorRef, ActorResult, ActorWeak, AskHandler, Error, Message, TellHandler};
use serde_json::{json, Value};
use std::collections::{BTreeSet, HashMap};
use std::sync::atomic::{AtomicU64, Ordering};
use std::sync::{Arc, Mutex};
use std::time::{Duration, Instant};

#[derive(Debug, Clone, PartialEq)]
pub struct Val(pub u64);
#[derive(Debug)]
pub struct ErrTok(pub String);

/// message type carrying its op slot in the type (so that a dead-letter record, which only
/// names the message type, identifies the operation even when it is logged on a helper thread)
pub struct MsgK<const K: u32> {
    pub m: u64,
    pub work: u8,
    pub run: u64,
}

/// request whose handler spawns a task and returns its JoinHandle (ask_join)
pub struct JoinK<const K: u32> {
    pub m: u64,
    pub delay_us: u64,
    pub panic: bool,
    pub run: u64,
}

#[derive(Clone)]
pub struct TCfg {
    pub run: u64,
    pub name: String,
    pub start: &'static str,
    pub stop: &'static str,
    pub panic_on: u64, // n-th handler panics (0 = never)
    pub run_script: Vec<&'static str>,
}

pub struct T {
    cfg: TCfg,
    nh: u64,
    ri: usize,
    pub jl: Vec<String>,
}

static RUN_EVENTS: Mutex<Option<HashMap<u64, Vec<Value>>>> = Mutex::new(None);
/// scenarios in progress (for the watchdog: if the whole workload stops making progress, what is pending is reported)
static ACTIVE: Mutex<Option<HashMap<u64, Arc<RunCtx>>>> = Mutex::new(None);
static FINISHED_RUNS: AtomicU64 = AtomicU64::new(0);
/// "frozen actor" scenarios: handlers with work == 9 wait here until the scenario thaws them
static THAW: Mutex<Option<HashMap<u64, Arc<tokio::sync::Notify>>>> = Mutex::new(None);

fn emit(run: u64, mut v: Value) {
    let t = TICKETS.fetch_add(1, Ordering::SeqCst);
    v["t"] = json!(t);
    v["run"] = json!(run);
    let mut g = RUN_EVENTS.lock().unwrap_or_else(|e| e.into_inner());
    g.get_or_insert_with(HashMap::new).entry(run).or_default().push(v);
}

fn take_run(run: u64) -> Vec<Value> {
    let mut g = RUN_EVENTS.lock().unwrap_or_else(|e| e.into_inner());
    let mut v = g.get_or_insert_with(HashMap::new).remove(&run).unwrap_or_default();
    v.sort_by_key(|e| e["t"].as_u64().unwrap_or(0));
    // dead letters name the message type only: resolve the type's slot to the op of this run
    let slots: HashMap<i64, u64> = v
        .iter()
        .filter(|e| e["e"] == "OpStart" && e["m"].as_u64().unwrap_or(0) > 0)
        .map(|e| (e["slot"].as_i64().unwrap_or(-1), e["op"].as_u64().unwrap_or(0)))
        .collect();
    for e in v.iter_mut() {
        if e["e"] == "DeadLetter" {
            let op = slots.get(&e["slot"].as_i64().unwrap_or(-1)).copied().unwrap_or(0);
            e["op"] = json!(op);
        }
    }
    v
}

impl Actor for T {
    type Args = TCfg;
    type Error = ErrTok;
    async fn on_start(cfg: TCfg, _r: &ActorRef<Self>) -> Result<Self, ErrTok> {
        emit(cfg.run, json!({"e": "HEnter", "a": cfg.name, "hook": "start", "m": 0, "killed": false, "n": 0}));
        tokio::task::yield_now().await;
        emit(cfg.run, json!({"e": "HExit", "a": cfg.name, "hook": "start", "m": 0, "out": cfg.start, "v": 0}));
        match cfg.start {
            "ok" => Ok(T { cfg, nh: 0, ri: 0, jl: vec!["start".into()] }),
            "err" => Err(ErrTok("start".into())),
            _ => panic!("scripted"),
        }
    }
    async fn on_run(&mut self, _w: &ActorWeak<Self>) -> Result<bool, ErrTok> {
        let out = self.cfg.run_script.get(self.ri).copied().unwrap_or("false");
        self.ri += 1;
        let inst = self.ri as u64;
        // (a change that makes the loop call on_run without end must not flood the trace: the first invocations tell the story)
        if inst <= 24 {
            emit(self.cfg.run, json!({"e": "RunPoll", "a": self.cfg.name, "inst": inst}));
            emit(self.cfg.run, json!({"e": "RunEnd", "a": self.cfg.name, "inst": inst, "out": out}));
        } else {
            tokio::task::yield_now().await;
        }
        match out {
            "true" => {
                self.jl.push("run".into());
                Ok(true)
            }
            "false" => {
                self.jl.push("run".into());
                Ok(false)
            }
            "err" => Err(ErrTok("run".into())),
            _ => panic!("scripted"),
        }
    }
    async fn on_stop(&mut self, _w: &ActorWeak<Self>, killed: bool) -> Result<(), ErrTok> {
        emit(self.cfg.run, json!({"e": "HEnter", "a": self.cfg.name, "hook": "stop", "m": 0, "killed": killed, "n": 0}));
        tokio::task::yield_now().await;
        emit(self.cfg.run, json!({"e": "HExit", "a": self.cfg.name, "hook": "stop", "m": 0, "out": self.cfg.stop, "v": 0}));
        match self.cfg.stop {
            "ok" => {
                self.jl.push("stop".into());
                Ok(())
            }
            "err" => Err(ErrTok("stop".into())),
            _ => panic!("scripted"),
        }
    }
}

impl<const K: u32> Message<MsgK<K>> for T {
    type Reply = Val;
    async fn handle(&mut self, msg: MsgK<K>, _r: &ActorRef<Self>) -> Val {
        self.nh += 1;
        emit(self.cfg.run, json!({"e": "HEnter", "a": self.cfg.name, "hook": "handler", "m": msg.m, "killed": false, "n": self.nh}));
        match msg.work {
            9 => {
                let n = THAW.lock().unwrap().as_ref().and_then(|m| m.get(&self.cfg.run).cloned());
                if let Some(n) = n {
                    n.notified().await;
                }
            }
            1 => tokio::task::yield_now().await,
            2 => tokio::time::sleep(Duration::from_micros(300)).await,
            3 => std::thread::sleep(Duration::from_micros(200)),
            _ => {}
        }
        if self.cfg.panic_on != 0 && self.nh == self.cfg.panic_on {
            emit(self.cfg.run, json!({"e": "HExit", "a": self.cfg.name, "hook": "handler", "m": msg.m, "out": "panic", "v": 0}));
            panic!("scripted");
        }
        let v = msg.m * 100 + self.nh;
        emit(self.cfg.run, json!({"e": "HExit", "a": self.cfg.name, "hook": "handler", "m": msg.m, "out": "ok", "v": v}));
        self.jl.push("h".into());
        Val(v)
    }
    fn on_tell_result(result: &Val, r: &ActorRef<Self>) {
        // the run id is not available here; TellResult events are only used by cooperative traces
        let _ = (result, r);
    }
}

impl<const K: u32> Message<JoinK<K>> for T {
    type Reply = tokio::task::JoinHandle<Val>;
    async fn handle(&mut self, msg: JoinK<K>, _r: &ActorRef<Self>) -> tokio::task::JoinHandle<Val> {
        self.nh += 1;
        emit(self.cfg.run, json!({"e": "HEnter", "a": self.cfg.name, "hook": "handler", "m": msg.m, "killed": false, "n": self.nh}));
        // the value the spawned task will produce is fixed here, so the trace can say what ask_join must return
        let v = msg.m * 100 + self.nh;
        let (d, p) = (msg.delay_us, msg.panic);
        let jh = tokio::spawn(async move {
            if d > 0 {
                tokio::time::sleep(Duration::from_micros(d)).await;
            }
            if p {
                panic!("scripted");
            }
            Val(v)
        });
        emit(self.cfg.run, json!({"e": "HExit", "a": self.cfg.name, "hook": "handler", "m": msg.m, "out": "ok", "v": v}));
        self.jl.push("h".into());
        jh
    }
}

fn res_of<X>(r: &Result<X, Error>) -> (&'static str, bool) {
    match r {
        Ok(_) => ("ok", false),
        Err(e) => (
            match e {
                Error::Send { .. } => "send",
                Error::Timeout { .. } => "timeout",
                Error::Receive { .. } => "recv",
                Error::Join { source, .. } if source.is_cancelled() => "joinc",
                Error::Join { .. } => "join",
                _ => "other",
            },
            e.is_retryable(),
        ),
    }
}

/// one client-side operation; `K` = slot of the op inside its run (identifies it in dead letters)
#[derive(Clone, Debug)]
pub struct OpSpec {
    pub api: &'static str,
    pub d: u64,
    pub work: u8,
    pub erased: bool,
    /// non-zero: this op and the other op with the same number are the same call issued in the same situation,
    /// once on the ActorRef and once through the type-erased wrapper (C16)
    pub pair: u32,
}

struct RunCtx {
    run: u64,
    t0: Instant,
    next_op: AtomicU64,
    next_m: AtomicU64,
    pending: Mutex<BTreeSet<u64>>,
    target: String,
}

impl RunCtx {
    /// wall-clock times of this channel are in MICROSECONDS (floor before a call, ceiling after its return)
    fn now_floor(&self) -> u64 {
        self.t0.elapsed().as_micros() as u64
    }
    fn now_ceil(&self) -> u64 {
        let e = self.t0.elapsed();
        (e.as_nanos() as u64).div_ceil(1000)
    }
}

/// the timeout actually passed for a nominal `d` ms: never a whole number of milliseconds, so that an implementation
/// that rounds its timer down (or up by more than the timer resolution allows to notice) is measured against the
/// duration the caller asked for
fn timeout_us(d_ms: u64) -> u64 {
    if d_ms == 0 { 0 } else { d_ms * 1000 + 100 + (d_ms * 37 % 8) * 100 }
}

fn model_kind(api: &str, d: u64) -> &'static str {
    match api {
        "tell" => "tell",
        "ask" => "ask",
        "tell_with_timeout" => "tellT",
        "ask_with_timeout" => "askT",
        "blocking_tell" | "blocking_tell_in_rt" | "blocking_tell_in_ct" => {
            if d > 0 {
                "tellT"
            } else {
                "tell"
            }
        }
        "blocking_ask" | "blocking_ask_in_rt" | "blocking_ask_in_ct" => {
            if d > 0 {
                "askT"
            } else {
                "ask"
            }
        }
        "tell_blocking" => "tell",
        "ask_blocking" => "ask",
        "ask_join" | "ask_join_panic" => "askJ",
        "stop" => "stop",
        "kill" => "kill",
        _ => "other",
    }
}

macro_rules! with_k {
    ($k:expr, $f:ident, $($arg:expr),*) => {
        match $k % 48 {
            0 => $f::<0>($($arg),*), 1 => $f::<1>($($arg),*), 2 => $f::<2>($($arg),*), 3 => $f::<3>($($arg),*),
            4 => $f::<4>($($arg),*), 5 => $f::<5>($($arg),*), 6 => $f::<6>($($arg),*), 7 => $f::<7>($($arg),*),
            8 => $f::<8>($($arg),*), 9 => $f::<9>($($arg),*), 10 => $f::<10>($($arg),*), 11 => $f::<11>($($arg),*),
            12 => $f::<12>($($arg),*), 13 => $f::<13>($($arg),*), 14 => $f::<14>($($arg),*), 15 => $f::<15>($($arg),*),
            16 => $f::<16>($($arg),*), 17 => $f::<17>($($arg),*), 18 => $f::<18>($($arg),*), 19 => $f::<19>($($arg),*),
            20 => $f::<20>($($arg),*), 21 => $f::<21>($($arg),*), 22 => $f::<22>($($arg),*), 23 => $f::<23>($($arg),*),
            24 => $f::<24>($($arg),*), 25 => $f::<25>($($arg),*), 26 => $f::<26>($($arg),*), 27 => $f::<27>($($arg),*),
            28 => $f::<28>($($arg),*), 29 => $f::<29>($($arg),*), 30 => $f::<30>($($arg),*), 31 => $f::<31>($($arg),*),
            32 => $f::<32>($($arg),*), 33 => $f::<33>($($arg),*), 34 => $f::<34>($($arg),*), 35 => $f::<35>($($arg),*),
            36 => $f::<36>($($arg),*), 37 => $f::<37>($($arg),*), 38 => $f::<38>($($arg),*), 39 => $f::<39>($($arg),*),
            40 => $f::<40>($($arg),*), 41 => $f::<41>($($arg),*), 42 => $f::<42>($($arg),*), 43 => $f::<43>($($arg),*),
            44 => $f::<44>($($arg),*), 45 => $f::<45>($($arg),*), 46 => $f::<46>($($arg),*), _ => $f::<47>($($arg),*),
        }
    };
}

fn begin(ctx: &RunCtx, own: &str, spec: &OpSpec, slot: u32) -> (u64, u64) {
    let op = ctx.next_op.fetch_add(1, Ordering::SeqCst);
    let kind = model_kind(spec.api, spec.d);
    let m = if matches!(kind, "tell" | "ask" | "tellT" | "askT" | "askJ") { ctx.next_m.fetch_add(1, Ordering::SeqCst) } else { 0 };
    if kind != "kill" {
        ctx.pending.lock().unwrap().insert(op);
    }
    // the deprecated aliases ignore their timeout: for the monitors they are untimed operations
    let d = if matches!(spec.api, "tell_blocking" | "ask_blocking" | "ask_join" | "ask_join_panic") { 0 } else { timeout_us(spec.d) };
    emit(ctx.run, json!({"e": "OpStart", "op": op, "own": own, "kind": kind, "api": spec.api, "h": 0, "a": ctx.target,
                         "m": m, "d": d, "now": ctx.now_floor(), "erased": spec.erased, "pair": spec.pair, "slot": slot,
                         "jp": spec.api == "ask_join_panic"}));
    (op, m)
}

fn finish(ctx: &RunCtx, op: u64, res: &str, val: u64, retry: bool) {
    ctx.pending.lock().unwrap().remove(&op);
    emit(ctx.run, json!({"e": "OpEnd", "op": op, "res": res, "val": val, "now": ctx.now_ceil(), "retry": retry}));
}

async fn do_async<const K: u32>(ctx: Arc<RunCtx>, r: ActorRef<T>, own: String, spec: OpSpec) {
    let (op, m) = begin(&ctx, &own, &spec, K);
    let msg = MsgK::<K> { m, work: spec.work, run: ctx.run };
    let dur = Duration::from_micros(timeout_us(spec.d));
    let (res, val, retry) = match spec.api {
        "tell" => {
            let x = if spec.erased {
                let h: Box<dyn TellHandler<MsgK<K>>> = (&r).into();
                h.tell(msg).await
            } else {
                r.tell(msg).await
            };
            let (s, rt) = res_of(&x);
            (s, 0, rt)
        }
        "tell_with_timeout" => {
            let x = if spec.erased {
                let h: Box<dyn TellHandler<MsgK<K>>> = (&r).into();
                h.tell_with_timeout(msg, dur).await
            } else {
                r.tell_with_timeout(msg, dur).await
            };
            let (s, rt) = res_of(&x);
            (s, 0, rt)
        }
        "ask" => {
            let x = if spec.erased {
                let h: Box<dyn AskHandler<MsgK<K>, Val>> = (&r).into();
                h.ask(msg).await
            } else {
                r.ask(msg).await
            };
            let (s, rt) = res_of(&x);
            (s, x.map(|v| v.0).unwrap_or(0), rt)
        }
        "ask_with_timeout" => {
            let x = if spec.erased {
                let h: Box<dyn AskHandler<MsgK<K>, Val>> = (&r).into();
                h.ask_with_timeout(msg, dur).await
            } else {
                r.ask_with_timeout(msg, dur).await
            };
            let (s, rt) = res_of(&x);
            (s, x.map(|v| v.0).unwrap_or(0), rt)
        }
        // timeout variants of the blocking API called from inside the runtime must not panic
        "blocking_tell_in_rt" | "blocking_tell_in_ct" => {
            let x = if spec.erased {
                let h: Box<dyn TellHandler<MsgK<K>>> = (&r).into();
                h.blocking_tell(msg, Some(dur))
            } else {
                r.blocking_tell(msg, Some(dur))
            };
            let (s, rt) = res_of(&x);
            (s, 0, rt)
        }
        "blocking_ask_in_rt" | "blocking_ask_in_ct" => {
            let x = if spec.erased {
                let h: Box<dyn AskHandler<MsgK<K>, Val>> = (&r).into();
                h.blocking_ask(msg, Some(dur))
            } else {
                r.blocking_ask(msg, Some(dur))
            };
            let (s, rt) = res_of(&x);
            (s, x.map(|v| v.0).unwrap_or(0), rt)
        }
        "ask_join" | "ask_join_panic" => {
            let jm = JoinK::<K> { m, delay_us: spec.d * 100, panic: spec.api == "ask_join_panic", run: ctx.run };
            let x = r.ask_join(jm).await;
            let (s, rt) = res_of(&x);
            (s, x.map(|v| v.0).unwrap_or(0), rt)
        }
        "stop" => {
            let x = r.stop().await;
            let (s, rt) = res_of(&x);
            (s, 0, rt)
        }
        _ => {
            let x = r.kill();
            let (s, rt) = res_of(&x);
            (s, 0, rt)
        }
    };
    finish(&ctx, op, res, val, retry);
}

fn do_async_boxed<const K: u32>(ctx: Arc<RunCtx>, r: ActorRef<T>, own: String, spec: OpSpec)
    -> std::pin::Pin<Box<dyn std::future::Future<Output = ()> + Send>> {
    Box::pin(do_async::<K>(ctx, r, own, spec))
}

#[allow(deprecated)]
fn do_blocking<const K: u32>(ctx: Arc<RunCtx>, r: ActorRef<T>, own: String, spec: OpSpec) {
    let (op, m) = begin(&ctx, &own, &spec, K);
    let msg = MsgK::<K> { m, work: spec.work, run: ctx.run };
    let to = if spec.d > 0 { Some(Duration::from_micros(timeout_us(spec.d))) } else { None };
    let (res, val, retry) = match spec.api {
        "blocking_tell" => {
            let x = if spec.erased {
                let h: Box<dyn TellHandler<MsgK<K>>> = (&r).into();
                h.blocking_tell(msg, to)
            } else {
                r.blocking_tell(msg, to)
            };
            let (s, rt) = res_of(&x);
            (s, 0, rt)
        }
        "blocking_ask" => {
            let x = if spec.erased {
                let h: Box<dyn AskHandler<MsgK<K>, Val>> = (&r).into();
                h.blocking_ask(msg, to)
            } else {
                r.blocking_ask(msg, to)
            };
            let (s, rt) = res_of(&x);
            (s, x.map(|v| v.0).unwrap_or(0), rt)
        }
        "tell_blocking" => {
            let x = r.tell_blocking(msg, to);
            let (s, rt) = res_of(&x);
            (s, 0, rt)
        }
        "ask_blocking" => {
            let x = r.ask_blocking(msg, to);
            let (s, rt) = res_of(&x);
            (s, x.map(|v| v.0).unwrap_or(0), rt)
        }
        _ => {
            let x = r.kill();
            let (s, rt) = res_of(&x);
            (s, 0, rt)
        }
    };
    finish(&ctx, op, res, val, retry);
}

fn joined_event(run: u64, a: &str, r: Result<ActorResult<T>, tokio::task::JoinError>) {
    let ev = match r {
        Ok(ActorResult::Completed { actor, killed }) => json!({"e": "Joined", "a": a, "jl": actor.jl, "cyc": [],
            "res": {"k": "completed", "phase": "", "killed": killed, "has": true, "err": "", "msg": ""}}),
        Ok(ActorResult::Failed { actor, error, phase, killed }) => json!({"e": "Joined", "a": a,
            "jl": actor.as_ref().map(|x| x.jl.clone()).unwrap_or_default(), "cyc": [],
            "res": {"k": "failed", "phase": format!("{phase}"), "killed": killed, "has": actor.is_some(), "err": error.0, "msg": ""}}),
        Err(je) => {
            let msg = if je.is_panic() {
                let p = je.into_panic();
                p.downcast_ref::<&str>().map(|s| s.to_string()).or_else(|| p.downcast_ref::<String>().cloned()).unwrap_or_default()
            } else {
                "cancelled".into()
            };
            json!({"e": "Joined", "a": a, "jl": [], "cyc": [],
                   "res": {"k": "panic", "phase": "", "killed": false, "has": false, "err": "", "msg": msg}})
        }
    };
    emit(run, ev);
}

const ASYNC_APIS: [&str; 11] = ["tell", "ask", "tell_with_timeout", "ask_with_timeout", "tell", "ask", "blocking_tell_in_rt", "blocking_ask_in_rt",
    "ask_join", "ask_join", "ask_join_panic"];
const BLOCK_APIS: [&str; 6] = ["blocking_tell", "blocking_ask", "blocking_tell", "blocking_ask", "tell_blocking", "ask_blocking"];

/// One seeded scenario: an actor, a few async clients, a few blocking threads, one controller
/// that ends the actor at a random moment (or not at all).
async fn scenario(run: u64, seed: u64, feats: Value, mix: &str) -> Vec<Value> {
    let mut rng = StdRng::seed_from_u64(seed);
    let name = format!("s{run}");
    emit(run, json!({"e": "Reset", "run": run, "feats": feats, "strict": false, "seed": seed}));
    let cap = *[1usize, 1, 2, 3, 32].get(rng.random_range(0..5)).unwrap();
    let ending = *["stop", "kill", "drop", "none", "panic", "stop", "kill"].get(rng.random_range(0..7)).unwrap();
    let n_ops_total: u64 = rng.random_range(4..20);
    let cfg = TCfg {
        run,
        name: name.clone(),
        start: if rng.random_range(0..12) == 0 { "err" } else { "ok" },
        stop: if rng.random_range(0..8) == 0 { "err" } else { "ok" },
        panic_on: if ending == "panic" { rng.random_range(1..=n_ops_total.min(6)) } else { 0 },
        run_script: match rng.random_range(0..4) {
            0 => vec!["true", "true", "false"],
            1 => vec!["true", "err"],
            _ => vec!["false"],
        },
    };
    let (aref, jh) = rsactor::spawn_with_mailbox_capacity::<T>(cfg, cap);
    let probe = ActorRef::downgrade(&aref);
    register_id(aref.identity().id, &name);
    emit(run, json!({"e": "Spawn", "a": name, "cap": cap, "id": aref.identity().id, "h": 0}));
    let ctx = Arc::new(RunCtx { run, t0: Instant::now(), next_op: AtomicU64::new(1), next_m: AtomicU64::new(1),
                                pending: Mutex::new(BTreeSet::new()), target: name.clone() });
    ACTIVE.lock().unwrap().get_or_insert_with(HashMap::new).insert(run, ctx.clone());
    let n_async = if mix == "blocking" { rng.random_range(0..2) } else { rng.random_range(1..4) };
    let n_block = if mix == "async" { 0 } else { rng.random_range(1..4) };
    let mut tasks = Vec::new();
    let mut slot: u32 = 0;
    for c in 0..n_async {
        let k_ops = rng.random_range(1..6);
        let mut specs = Vec::new();
        for _ in 0..k_ops {
            specs.push((slot, OpSpec { api: ASYNC_APIS[rng.random_range(0..ASYNC_APIS.len())], d: *[3u64, 10, 40].get(rng.random_range(0..3)).unwrap(),
                                       work: rng.random_range(0..4), erased: rng.random_range(0..3) == 0, pair: 0 }));
            slot += 1;
        }
        let (ctx2, r2, own) = (ctx.clone(), aref.clone(), format!("c{c}"));
        tasks.push(tokio::spawn(async move {
            for (k, spec) in specs {
                with_k!(k, do_async_boxed, ctx2.clone(), r2.clone(), own.clone(), spec).await;
            }
        }));
    }
    let mut threads = Vec::new();
    for b in 0..n_block {
        let k_ops = rng.random_range(1..5);
        let mut specs = Vec::new();
        for _ in 0..k_ops {
            let api = BLOCK_APIS[rng.random_range(0..BLOCK_APIS.len())];
            let d = if rng.random_range(0..2) == 0 { 0 } else { *[5u64, 20, 60].get(rng.random_range(0..3)).unwrap() };
            specs.push((slot, OpSpec { api, d, work: rng.random_range(0..4), erased: rng.random_range(0..3) == 0, pair: 0 }));
            slot += 1;
        }
        let (ctx2, r2, own) = (ctx.clone(), aref.clone(), format!("b{b}"));
        let use_spawn_blocking = rng.random_range(0..2) == 0;
        let body = move || {
            for (k, spec) in specs {
                with_k!(k, do_blocking, ctx2.clone(), r2.clone(), own.clone(), spec);
            }
        };
        if use_spawn_blocking {
            tasks.push(tokio::task::spawn_blocking(body));
        } else {
            threads.push(std::thread::spawn(body));
        }
    }
    // a caller sitting in async code of its own current-thread runtime (the timeout variants of the blocking API
    // must work there too: no panic, and the deadline is honoured although this thread is the only one driving it)
    if mix != "async" && rng.random_range(0..3) == 0 {
        let k_ops = rng.random_range(1..4);
        let mut specs = Vec::new();
        for _ in 0..k_ops {
            let api = if rng.random_range(0..2) == 0 { "blocking_tell_in_ct" } else { "blocking_ask_in_ct" };
            specs.push((slot, OpSpec { api, d: *[5u64, 20, 40].get(rng.random_range(0..3)).unwrap(), work: rng.random_range(0..4), erased: false, pair: 0 }));
            slot += 1;
        }
        let (ctx2, r2) = (ctx.clone(), aref.clone());
        threads.push(std::thread::spawn(move || {
            let rt = tokio::runtime::Builder::new_current_thread().enable_time().build().unwrap();
            rt.block_on(async move {
                for (k, spec) in specs {
                    with_k!(k, do_async_boxed, ctx2.clone(), r2.clone(), "t0".to_string(), spec).await;
                }
            });
        }));
    }
    // controller
    let delay_us = rng.random_range(0..1500);
    {
        let (ctx2, r2) = (ctx.clone(), aref.clone());
        tasks.push(tokio::spawn(async move {
            tokio::time::sleep(Duration::from_micros(delay_us)).await;
            match ending {
                "stop" => do_async::<47>(ctx2, r2, "ctl".into(), OpSpec { api: "stop", d: 0, work: 0, erased: false, pair: 0 }).await,
                "kill" => do_async::<47>(ctx2, r2, "ctl".into(), OpSpec { api: "kill", d: 0, work: 0, erased: false, pair: 0 }).await,
                _ => {}
            }
        }));
    }
    drop(aref);
    // wait for the clients (bounded): an op that has not returned by then is reported as pending
    let deadline = Instant::now() + Duration::from_millis(2500);
    for t in tasks {
        let left = deadline.saturating_duration_since(Instant::now());
        let _ = tokio::time::timeout(left, t).await;
    }
    let th_deadline = deadline;
    for th in threads {
        while !th.is_finished() && Instant::now() < th_deadline {
            tokio::time::sleep(Duration::from_millis(2)).await;
        }
        if th.is_finished() {
            let _ = th.join();
        }
    }
    let left = deadline.saturating_duration_since(Instant::now()).max(Duration::from_millis(300));
    let mut unjoined = vec![];
    match tokio::time::timeout(left, jh).await {
        Ok(r) => joined_event(run, &name, r),
        Err(_) => unjoined.push(name.clone()),
    }
    // give ops that were woken by the actor's end a moment to return
    for _ in 0..100 {
        if ctx.pending.lock().unwrap().is_empty() {
            break;
        }
        tokio::time::sleep(Duration::from_millis(5)).await;
    }
    let pending: Vec<u64> = ctx.pending.lock().unwrap().iter().cloned().collect();
    let (dmax, davail, dstrong, dclosed) = probe.__verif_counts();
    emit(run, json!({"e": "Quiescent", "pending": pending, "unjoined": unjoined, "wf": [], "now": ctx.now_ceil(),
                     "diag": {"max": dmax, "avail": davail, "strong": dstrong, "closed": dclosed}}));
    if let Some(m) = ACTIVE.lock().unwrap().as_mut() {
        m.remove(&run);
    }
    FINISHED_RUNS.fetch_add(1, Ordering::SeqCst);
    take_run(run)
}

/// C17: "given a timeout they return by the deadline even if the actor never responds or the mailbox stays full".
/// The actor is frozen in its first handler with its capacity-1 mailbox full; callers on a plain thread, in
/// spawn_blocking, in async code of the multi-thread runtime and in async code of their own current-thread runtime use
/// the timeout variants. Nothing moves until every caller has returned (or 2.5 s have passed).
async fn frozen_scenario(run: u64, seed: u64, feats: Value) -> Vec<Value> {
    let mut rng = StdRng::seed_from_u64(seed);
    let name = format!("s{run}");
    emit(run, json!({"e": "Reset", "run": run, "feats": feats, "strict": false, "seed": seed}));
    let thaw = Arc::new(tokio::sync::Notify::new());
    THAW.lock().unwrap().get_or_insert_with(HashMap::new).insert(run, thaw.clone());
    let cfg = TCfg { run, name: name.clone(), start: "ok", stop: "ok", panic_on: 0, run_script: vec!["false"] };
    let (aref, jh) = rsactor::spawn_with_mailbox_capacity::<T>(cfg, 1);
    let probe = ActorRef::downgrade(&aref);
    register_id(aref.identity().id, &name);
    emit(run, json!({"e": "Spawn", "a": name, "cap": 1, "id": aref.identity().id, "h": 0}));
    let ctx = Arc::new(RunCtx { run, t0: Instant::now(), next_op: AtomicU64::new(1), next_m: AtomicU64::new(1),
                                pending: Mutex::new(BTreeSet::new()), target: name.clone() });
    ACTIVE.lock().unwrap().get_or_insert_with(HashMap::new).insert(run, ctx.clone());
    // freeze the actor in a handler and fill its only slot
    do_async::<0>(ctx.clone(), aref.clone(), "c0".into(), OpSpec { api: "tell", d: 0, work: 9, erased: false, pair: 0 }).await;
    for _ in 0..200 {
        if probe.__verif_counts().1 == 1 {
            break; // the frozen message has been taken: the slot is free again
        }
        tokio::time::sleep(Duration::from_millis(1)).await;
    }
    do_async::<1>(ctx.clone(), aref.clone(), "c0".into(), OpSpec { api: "tell", d: 0, work: 0, erased: false, pair: 0 }).await;
    let ds = [20u64, 40, 60];
    let mut tasks = Vec::new();
    let mut threads = Vec::new();
    let mut slot = 2u32;
    let mut pairno = 0u32;
    // every caller issues its call twice at the same time: on the ActorRef and through the type-erased wrapper.
    // The actor stays frozen and its only slot stays taken, so the two calls are in the same situation (C16).
    let mut pick = |rng: &mut StdRng, apis: [&'static str; 2]| {
        let api = apis[rng.random_range(0..2)];
        let d = ds[rng.random_range(0..3)];
        pairno += 1;
        slot += 2;
        [(slot - 2, OpSpec { api, d, work: 0, erased: false, pair: pairno }), (slot - 1, OpSpec { api, d, work: 0, erased: true, pair: pairno })]
    };
    for (i, (k, spec)) in pick(&mut rng, ["blocking_tell", "blocking_ask"]).into_iter().enumerate() {
        let (c2, r2) = (ctx.clone(), aref.clone());
        threads.push(std::thread::spawn(move || with_k!(k, do_blocking, c2, r2, format!("b0{i}"), spec)));
    }
    for (i, (k, spec)) in pick(&mut rng, ["blocking_tell", "blocking_ask"]).into_iter().enumerate() {
        let (c2, r2) = (ctx.clone(), aref.clone());
        tasks.push(tokio::task::spawn_blocking(move || with_k!(k, do_blocking, c2, r2, format!("b1{i}"), spec)));
    }
    for (i, (k, spec)) in pick(&mut rng, ["blocking_tell_in_rt", "blocking_ask_in_rt"]).into_iter().enumerate() {
        let (c2, r2) = (ctx.clone(), aref.clone());
        tasks.push(tokio::spawn(async move { with_k!(k, do_async_boxed, c2, r2, format!("c1{i}"), spec).await }));
    }
    for (i, (k, spec)) in pick(&mut rng, ["tell_with_timeout", "ask_with_timeout"]).into_iter().enumerate() {
        let (c2, r2) = (ctx.clone(), aref.clone());
        tasks.push(tokio::spawn(async move { with_k!(k, do_async_boxed, c2, r2, format!("c2{i}"), spec).await }));
    }
    // a caller that is an async task of a current-thread runtime: nothing else can run on that runtime (not even its
    // timer) while the call blocks its only thread
    for (i, (k, spec)) in pick(&mut rng, ["blocking_tell_in_ct", "blocking_ask_in_ct"]).into_iter().enumerate() {
        let (c2, r2) = (ctx.clone(), aref.clone());
        threads.push(std::thread::spawn(move || {
            let rt = tokio::runtime::Builder::new_current_thread().enable_time().build().unwrap();
            rt.block_on(async move { with_k!(k, do_async_boxed, c2, r2, format!("t0{i}"), spec).await });
        }));
    }
    let deadline = Instant::now() + Duration::from_millis(2500);
    for t in tasks {
        let left = deadline.saturating_duration_since(Instant::now());
        let _ = tokio::time::timeout(left, t).await;
    }
    for th in &threads {
        while !th.is_finished() && Instant::now() < deadline {
            tokio::time::sleep(Duration::from_millis(2)).await;
        }
    }
    // what has not returned by now (the longest timeout is 60 ms) is reported as pending BEFORE anything is thawed
    let pending: Vec<u64> = ctx.pending.lock().unwrap().iter().cloned().collect();
    let (dmax, davail, dstrong, dclosed) = probe.__verif_counts();
    emit(run, json!({"e": "Quiescent", "pending": pending, "unjoined": [], "wf": [], "now": ctx.now_ceil(),
                     "diag": {"max": dmax, "avail": davail, "strong": dstrong, "closed": dclosed}}));
    thaw.notify_one();
    let _ = aref.kill();
    drop(aref);
    let _ = tokio::time::timeout(Duration::from_millis(1000), jh).await;
    if let Some(m) = THAW.lock().unwrap().as_mut() {
        m.remove(&run);
    }
    if let Some(m) = ACTIVE.lock().unwrap().as_mut() {
        m.remove(&run);
    }
    FINISHED_RUNS.fetch_add(1, Ordering::SeqCst);
    // events logged after this point (ops released by the thaw) do not belong to the judged trace
    take_run(run)
}

/// maps "....MsgK<17>" to slot 17
pub fn slot_of_type(name: &str) -> Option<u32> {
    let i = name.rfind("MsgK<").map(|i| i + 5).or_else(|| name.rfind("JoinK<").map(|i| i + 6))?;
    name[i..].trim_end_matches('>').parse().ok()
}

pub fn run_stress(iters: u64, seed: u64, par: usize, mix: &'static str, out: &str, feats: Value) -> (u64, u64) {
    USE_TICKETS.store(true, Ordering::SeqCst);
    let _ = LOG.lock().map(|mut g| g.clear());
    let out_path = out.to_string();
    let (txd, rxd) = std::sync::mpsc::channel::<(u64, u64)>();
    let sink: Arc<Mutex<Vec<Value>>> = Arc::new(Mutex::new(Vec::new()));
    let sink2 = sink.clone();
    // the workload runs on its own thread so that a workload that stops making progress altogether (every worker
    // blocked) cannot take the harness with it
    std::thread::spawn(move || {
        let rt = tokio::runtime::Builder::new_multi_thread().worker_threads(12).enable_time().build().unwrap();
        let mut events = 0u64;
        let mut done = 0u64;
        rt.block_on(async {
            let mut next = 1u64;
            while next <= iters {
                let mut batch = Vec::new();
                for _ in 0..par {
                    if next > iters {
                        break;
                    }
                    let run = next;
                    next += 1;
                    let f = feats.clone();
                    if mix == "frozen" {
                        batch.push(tokio::spawn(frozen_scenario(run, seed.wrapping_mul(1_000_003).wrapping_add(run), f)));
                    } else {
                        batch.push(tokio::spawn(scenario(run, seed.wrapping_mul(1_000_003).wrapping_add(run), f, mix)));
                    }
                }
                for b in batch {
                    if let Ok(evs) = b.await {
                        done += 1;
                        events += evs.len() as u64;
                        sink2.lock().unwrap().extend(evs);
                    }
                }
            }
        });
        let _ = txd.send((done, events));
        rt.shutdown_timeout(Duration::from_millis(200));
    });
    // watchdog: wait for completion as long as scenarios keep finishing
    let mut last = 0u64;
    let mut stalled = 0u32;
    let result = loop {
        match rxd.recv_timeout(Duration::from_secs(2)) {
            Ok(r) => break Some(r),
            Err(_) => {
                let f = FINISHED_RUNS.load(Ordering::SeqCst);
                if f == last {
                    stalled += 1;
                } else {
                    stalled = 0;
                    last = f;
                }
                if stalled >= 8 {
                    break None;
                }
            }
        }
    };
    let (done, mut events) = result.unwrap_or((FINISHED_RUNS.load(Ordering::SeqCst), 0));
    let mut all: Vec<Value> = std::mem::take(&mut *sink.lock().unwrap());
    if result.is_none() {
        // nothing has finished for 16 s: report every scenario still in progress with what it has pending
        let active: Vec<(u64, Arc<RunCtx>)> = ACTIVE.lock().unwrap().as_ref().map(|m| m.iter().map(|(k, v)| (*k, v.clone())).collect()).unwrap_or_default();
        for (run, ctx) in active {
            let pending: Vec<u64> = ctx.pending.lock().unwrap().iter().cloned().collect();
            emit(run, json!({"e": "Quiescent", "pending": pending, "unjoined": [ctx.target.clone()], "wf": [], "now": ctx.now_ceil(),
                             "stalled": true}));
            all.extend(take_run(run));
        }
        eprintln!("stress: workload stalled; {} scenarios reported as stuck", ACTIVE.lock().unwrap().as_ref().map(|m| m.len()).unwrap_or(0));
    }
    use std::io::Write;
    let mut o = std::io::BufWriter::new(std::fs::File::create(&out_path).unwrap());
    for e in &all {
        serde_json::to_writer(&mut o, e).unwrap();
        o.write_all(b"\n").unwrap();
    }
    o.flush().unwrap();
    if events == 0 {
        events = all.len() as u64;
    }
    if result.is_none() {
        println!("stress: runs={done} events={events} STALLED");
        std::process::exit(0);
    }
    (done, events)
}

// ---------------------------------------------------------------------------------------------
// dead letters in the stress channel: attributed through the message type's slot

pub struct StressCapture;

#[derive(Default)]
struct Grab {
    message: String,
    fields: HashMap<String, String>,
}
impl tracing::field::Visit for Grab {
    fn record_debug(&mut self, f: &tracing::field::Field, v: &dyn std::fmt::Debug) {
        let s = format!("{v:?}");
        if f.name() == "message" {
            self.message = s;
        } else {
            self.fields.insert(f.name().to_string(), s);
        }
    }
    fn record_str(&mut self, f: &tracing::field::Field, v: &str) {
        self.fields.insert(f.name().to_string(), v.to_string());
    }
    fn record_u64(&mut self, f: &tracing::field::Field, v: u64) {
        self.fields.insert(f.name().to_string(), v.to_string());
    }
}

impl tracing::Subscriber for StressCapture {
    fn enabled(&self, m: &tracing::Metadata<'_>) -> bool {
        *m.level() <= tracing::Level::WARN
    }
    fn new_span(&self, _s: &tracing::span::Attributes<'_>) -> tracing::span::Id {
        tracing::span::Id::from_u64(1)
    }
    fn record(&self, _s: &tracing::span::Id, _v: &tracing::span::Record<'_>) {}
    fn record_follows_from(&self, _s: &tracing::span::Id, _f: &tracing::span::Id) {}
    fn event(&self, event: &tracing::Event<'_>) {
        let mut g = Grab::default();
        event.record(&mut g);
        if !g.message.starts_with("Dead letter") {
            return;
        }
        let id: u64 = g.fields.get("actor.id").and_then(|s| s.parse().ok()).unwrap_or(0);
        let a = crate::log::name_of(id);
        let run: u64 = a.trim_start_matches('s').parse().unwrap_or(0);
        let reason = match g.fields.get("dead_letter.reason").map(|s| s.as_str()) {
            Some("actor stopped") => "stopped",
            Some("timeout") => "timeout",
            Some("reply dropped") => "dropped",
            _ => "other",
        };
        let opn = g.fields.get("dead_letter.operation").cloned().unwrap_or_default();
        let slot = g.fields.get("message.type_name").and_then(|s| slot_of_type(s));
        let _ = CUR_OP.with(|c| c.get());
        emit(run, json!({"e": "DeadLetter", "op": 0, "slot": slot.map(|x| x as i64).unwrap_or(-1), "a": a,
                         "reason": reason, "opn": opn, "mt": slot.is_some()}));
    }
    fn enter(&self, _s: &tracing::span::Id) {}
    fn exit(&self, _s: &tracing::span::Id) {}
}

/// Targeted teardown stress (C03 / finding F2): askers race the end of the actor task.
/// Uses the same event vocabulary; only iterations in which something is left pending (plus a
/// 1-in-`sample` sample of the others) are written out.
pub fn run_teardown(iters: u64, seed: u64, out: &str, feats: Value, sample: u64) -> (u64, u64, u64) {
    USE_TICKETS.store(true, Ordering::SeqCst);
    let rt = tokio::runtime::Builder::new_multi_thread().worker_threads(12).enable_time().build().unwrap();
    let mut o = std::io::BufWriter::new(std::fs::File::create(out).unwrap());
    use std::io::Write;
    let mut written = 0u64;
    let mut hung_runs = 0u64;
    let mut asks = 0u64;
    rt.block_on(async {
        let mut rng = StdRng::seed_from_u64(seed);
        for run in 1..=iters {
            let name = format!("s{run}");
            emit(run, json!({"e": "Reset", "run": run, "feats": feats, "strict": false, "seed": seed}));
            let way = rng.random_range(0..5);
            let cap = *[1usize, 2, 32].get(rng.random_range(0..3)).unwrap();
            let cfg = TCfg { run, name: name.clone(), start: if way == 0 { "err" } else { "ok" }, stop: "ok",
                             panic_on: if way == 1 { 1 } else { 0 },
                             run_script: if way == 2 { vec!["err"] } else { vec!["false"] } };
            let (aref, jh) = rsactor::spawn_with_mailbox_capacity::<T>(cfg, cap);
            let probe = ActorRef::downgrade(&aref);
            register_id(aref.identity().id, &name);
            emit(run, json!({"e": "Spawn", "a": name, "cap": cap, "id": aref.identity().id, "h": 0}));
            let ctx = Arc::new(RunCtx { run, t0: Instant::now(), next_op: AtomicU64::new(1), next_m: AtomicU64::new(1),
                                        pending: Mutex::new(BTreeSet::new()), target: name.clone() });
            let mut tasks = Vec::new();
            let n_ask = 6u32;
            for c in 0..n_ask {
                let (ctx2, r2) = (ctx.clone(), aref.clone());
                let spin = rng.random_range(0..400);
                tasks.push(tokio::spawn(async move {
                    for _ in 0..spin { std::hint::spin_loop(); }
                    let spec = OpSpec { api: "ask", d: 0, work: 0, erased: false, pair: 0 };
                    with_k!(c, do_async_boxed, ctx2, r2, format!("c{c}"), spec).await;
                }));
            }
            asks += n_ask as u64;
            {
                let (ctx2, r2) = (ctx.clone(), aref.clone());
                let spin = rng.random_range(0..600);
                tasks.push(tokio::spawn(async move {
                    for _ in 0..spin { std::hint::spin_loop(); }
                    match way {
                        3 => do_async::<47>(ctx2, r2, "ctl".into(), OpSpec { api: "kill", d: 0, work: 0, erased: false, pair: 0 }).await,
                        4 => do_async::<47>(ctx2, r2, "ctl".into(), OpSpec { api: "stop", d: 0, work: 0, erased: false, pair: 0 }).await,
                        _ => {}
                    }
                }));
            }
            drop(aref);
            let mut unjoined = vec![];
            match tokio::time::timeout(Duration::from_millis(2000), jh).await {
                Ok(r) => joined_event(run, &name, r),
                Err(_) => unjoined.push(name.clone()),
            }
            // every ask must return soon after the actor has ended
            let deadline = Instant::now() + Duration::from_millis(400);
            for t in tasks {
                let left = deadline.saturating_duration_since(Instant::now());
                let _ = tokio::time::timeout(left, t).await;
            }
            let pending: Vec<u64> = ctx.pending.lock().unwrap().iter().cloned().collect();
            let (dmax, davail, dstrong, dclosed) = probe.__verif_counts();
            emit(run, json!({"e": "Quiescent", "pending": pending, "unjoined": unjoined, "wf": [], "now": ctx.now_ceil(),
                             "diag": {"max": dmax, "avail": davail, "strong": dstrong, "closed": dclosed}}));
            let evs = take_run(run);
            let interesting = !pending.is_empty() || !unjoined.is_empty();
            if interesting {
                hung_runs += 1;
                if hung_runs >= 12 {
                    // plenty of evidence: every further hung iteration costs seconds of waiting
                    written += 1;
                    for e in &evs {
                        serde_json::to_writer(&mut o, e).unwrap();
                        o.write_all(b"\n").unwrap();
                    }
                    break;
                }
            }
            if interesting || run % sample.max(1) == 0 {
                written += 1;
                for e in &evs {
                    serde_json::to_writer(&mut o, e).unwrap();
                    o.write_all(b"\n").unwrap();
                }
            }
        }
    });
    o.flush().unwrap();
    rt.shutdown_timeout(Duration::from_millis(200));
    (asks, hung_runs, written)
}


/// C11: spawn actors from many threads at once; report the ids each thread obtained.
pub fn run_spawnids(threads: usize, per: usize, out: &str) -> usize {
    let rt = tokio::runtime::Builder::new_multi_thread().worker_threads(4).enable_time().build().unwrap();
    let handle = rt.handle().clone();
    let barrier = Arc::new(std::sync::Barrier::new(threads));
    let mut hs = Vec::new();
    for t in 0..threads {
        let (h, b) = (handle.clone(), barrier.clone());
        hs.push(std::thread::spawn(move || {
            let _g = h.enter();
            b.wait();
            let mut ids = Vec::with_capacity(per);
            for i in 0..per {
                let cfg = TCfg { run: 0, name: format!("x{t}_{i}"), start: "err", stop: "ok", panic_on: 0, run_script: vec![] };
                let (r, _jh) = rsactor::spawn::<T>(cfg);
                ids.push(r.identity().id);
            }
            (t, ids)
        }));
    }
    use std::io::Write;
    let mut o = std::io::BufWriter::new(std::fs::File::create(out).unwrap());
    let mut n = 0;
    for h in hs {
        let (t, ids) = h.join().unwrap();
        n += ids.len();
        serde_json::to_writer(&mut o, &json!({"e": "SpawnBatch", "thread": t, "ids": ids})).unwrap();
        o.write_all(b"\n").unwrap();
    }
    o.flush().unwrap();
    rt.shutdown_timeout(Duration::from_millis(500));
    let _ = take_run(0);
    n
}
