//! The scripted actor: every hook logs its entry, parks on a driver-controlled gate and does
//! what the directive placed on the gate tells it to do.  Also the instrumented client/nested
//! operations and the global handle table they use.

use crate::log::{emit, name_of, CUR_OP};
use rsactor::{
    Actor, ActorControl, ActorRef, ActorWeak, AskHandler, Error, Message, TellHandler,
    WeakActorControl, WeakAskHandler, WeakTellHandler,
};
use serde_json::json;
use std::collections::{BTreeSet, HashMap};
use std::future::Future;
use std::pin::Pin;
use std::sync::atomic::{AtomicU64, Ordering};
use std::sync::{Arc, Mutex};
use std::task::{Context, Poll, Waker};
use std::time::Duration;

pub struct Msg {
    pub m: u64,
}
/// same as Msg, but the reply type is a plain String (the decimal value): requests with an odd id sent through an
/// ActorRef use this type, so that both a user-defined and a std reply type travel through the type-erased reply channel
pub struct SMsg {
    pub m: u64,
}
/// request whose handler spawns a task and replies with its JoinHandle (ask_join)
pub struct JMsg {
    pub m: u64,
}
/// runtime on which the tasks spawned by JMsg handlers live (driven only by `task` commands)
pub static TASK_RT: Mutex<Option<tokio::runtime::Handle>> = Mutex::new(None);
/// spawned tasks waiting to be told how to end, by request id
pub static TASKS: Mutex<Option<HashMap<u64, (tokio::sync::oneshot::Sender<String>, tokio::task::AbortHandle)>>> = Mutex::new(None);
#[derive(Debug, Clone, PartialEq)]
pub struct Val(pub u64);
#[derive(Debug)]
pub struct ErrTok(pub String);

#[derive(Clone, Debug)]
pub enum Dir {
    Out(String),
    Nest { kind: String, h: u64, d: u64, then: Option<String> },
}

pub struct Gate {
    pub dir: Option<Dir>,
    pub waker: Option<Waker>,
    /// hook currently parked on the gate ("" = none): "Start","Handler","Stop","Run"
    pub parked: &'static str,
}

pub struct Shared {
    pub name: String,
    pub gate: Mutex<Gate>,
    /// outcome with which the next on_run invocation returns at its very first poll (it does not park on the gate)
    pub run_now: Mutex<Option<String>>,
}

impl Shared {
    pub fn new(name: &str) -> Arc<Shared> {
        Arc::new(Shared {
            name: name.to_string(),
            gate: Mutex::new(Gate { dir: None, waker: None, parked: "" }),
            run_now: Mutex::new(None),
        })
    }
    pub fn give(&self, d: Dir) {
        let mut g = self.gate.lock().unwrap();
        g.dir = Some(d);
        if let Some(w) = g.waker.take() {
            w.wake();
        }
    }
    pub fn clear(&self) {
        self.gate.lock().unwrap().dir = None;
    }
    pub fn parked(&self) -> &'static str {
        self.gate.lock().unwrap().parked
    }
}

struct GateFut<'a>(&'a Shared, &'static str);
impl Future for GateFut<'_> {
    type Output = Dir;
    fn poll(self: Pin<&mut Self>, cx: &mut Context<'_>) -> Poll<Dir> {
        let mut g = self.0.gate.lock().unwrap();
        if let Some(d) = g.dir.take() {
            g.parked = "";
            Poll::Ready(d)
        } else {
            g.waker = Some(cx.waker().clone());
            g.parked = self.1;
            Poll::Pending
        }
    }
}

// ---------------------------------------------------------------------------------------------
// handles

pub enum H {
    S(Arc<ActorRef<S>>),
    W(Arc<ActorWeak<S>>),
    Tell(Arc<Box<dyn TellHandler<Msg>>>),
    Ask(Arc<Box<dyn AskHandler<Msg, Val>>>),
    Ctl(Arc<Box<dyn ActorControl>>),
    WTell(Arc<Box<dyn WeakTellHandler<Msg>>>),
    WAsk(Arc<Box<dyn WeakAskHandler<Msg, Val>>>),
    WCtl(Arc<Box<dyn WeakActorControl>>),
    Dead,
}

pub static HANDLES: Mutex<Option<HashMap<u64, H>>> = Mutex::new(None);
pub static NEXT_OP: AtomicU64 = AtomicU64::new(1);
pub static NEXT_M: AtomicU64 = AtomicU64::new(1);
/// virtual clock (ms) maintained by the driver
pub static NOW: AtomicU64 = AtomicU64::new(0);
/// ops whose future exists and has not produced a value
pub static PENDING: Mutex<BTreeSet<u64>> = Mutex::new(BTreeSet::new());
/// deadlines (virtual ms) of pending timed ops
pub static DEADLINES: Mutex<std::collections::BTreeMap<u64, u64>> = Mutex::new(std::collections::BTreeMap::new());
/// per-actor sampling handles (weak, do not keep anything alive)
pub static SAMPLERS: Mutex<Option<HashMap<String, ActorWeak<S>>>> = Mutex::new(None);

pub fn with_handles<R>(f: impl FnOnce(&mut HashMap<u64, H>) -> R) -> R {
    let mut g = HANDLES.lock().unwrap_or_else(|e| e.into_inner());
    f(g.get_or_insert_with(HashMap::new))
}

pub fn avail_of(a: &str) -> i64 {
    let g = SAMPLERS.lock().unwrap_or_else(|e| e.into_inner());
    match g.as_ref().and_then(|m| m.get(a)) {
        Some(w) => w.__verif_counts().1 as i64,
        None => -1,
    }
}

fn map_err(e: &Error) -> &'static str {
    match e {
        Error::Send { .. } => "send",
        Error::Timeout { .. } => "timeout",
        Error::Receive { .. } => "recv",
        // the JoinError inside says whether the spawned task was cancelled or panicked
        Error::Join { source, .. } if source.is_cancelled() => "joinc",
        Error::Join { .. } => "join",
        _ => "other",
    }
}

type OpOut = (String, u64, bool);
type OpFut = Pin<Box<dyn Future<Output = OpOut> + Send>>;

fn fin_unit(r: rsactor::Result<()>) -> OpOut {
    match r {
        Ok(()) => ("ok".into(), 0, false),
        Err(e) => (map_err(&e).into(), 0, e.is_retryable()),
    }
}
fn fin_str(r: rsactor::Result<String>) -> OpOut {
    match r {
        // a reply that is not the decimal value a handler produces is reported as value 0 (no handler produces 0)
        Ok(v) => ("ok".into(), v.parse::<u64>().unwrap_or(0), false),
        Err(e) => (map_err(&e).into(), 0, e.is_retryable()),
    }
}
fn fin_val(r: rsactor::Result<Val>) -> OpOut {
    match r {
        Ok(v) => ("ok".into(), v.0, false),
        Err(e) => (map_err(&e).into(), 0, e.is_retryable()),
    }
}

/// Build the future of one operation on handle `h`.  Returns None when the handle cannot
/// perform the operation (schedule inapplicable).
fn build(kind: &str, h: u64, m: u64, d: u64) -> Option<(String, OpFut)> {
    let dur = Duration::from_millis(d);
    with_handles(|hs| {
        let hh = hs.get(&h)?;
        let target;
        let fut: OpFut = match hh {
            H::S(r) => {
                let r = r.clone();
                target = name_of(r.identity().id);
                let odd = m % 2 == 1;
                match kind {
                    "tell" if odd => Box::pin(async move { fin_unit(r.tell(SMsg { m }).await) }),
                    "ask" if odd => Box::pin(async move { fin_str(r.ask(SMsg { m }).await) }),
                    "tellT" if odd => Box::pin(async move { fin_unit(r.tell_with_timeout(SMsg { m }, dur).await) }),
                    "askT" if odd => Box::pin(async move { fin_str(r.ask_with_timeout(SMsg { m }, dur).await) }),
                    "tell" => Box::pin(async move { fin_unit(r.tell(Msg { m }).await) }),
                    "ask" => Box::pin(async move { fin_val(r.ask(Msg { m }).await) }),
                    "tellT" => Box::pin(async move { fin_unit(r.tell_with_timeout(Msg { m }, dur).await) }),
                    "askT" => Box::pin(async move { fin_val(r.ask_with_timeout(Msg { m }, dur).await) }),
                    "askJ" => Box::pin(async move { fin_val(r.ask_join(JMsg { m }).await) }),
                    "stop" => Box::pin(async move { fin_unit(r.stop().await) }),
                    "kill" => Box::pin(async move { fin_unit(r.kill()) }),
                    _ => return None,
                }
            }
            H::Tell(r) => {
                let r = r.clone();
                target = name_of(r.as_control().identity().id);
                match kind {
                    "tell" => Box::pin(async move { fin_unit(r.tell(Msg { m }).await) }),
                    "tellT" => Box::pin(async move { fin_unit(r.tell_with_timeout(Msg { m }, dur).await) }),
                    "stop" => Box::pin(async move { fin_unit(r.as_control().stop().await) }),
                    "kill" => Box::pin(async move { fin_unit(r.as_control().kill()) }),
                    _ => return None,
                }
            }
            H::Ask(r) => {
                let r = r.clone();
                target = name_of(r.as_control().identity().id);
                match kind {
                    "ask" => Box::pin(async move { fin_val(r.ask(Msg { m }).await) }),
                    "askT" => Box::pin(async move { fin_val(r.ask_with_timeout(Msg { m }, dur).await) }),
                    "stop" => Box::pin(async move { fin_unit(r.as_control().stop().await) }),
                    "kill" => Box::pin(async move { fin_unit(r.as_control().kill()) }),
                    _ => return None,
                }
            }
            H::Ctl(r) => {
                let r = r.clone();
                target = name_of(r.identity().id);
                match kind {
                    "stop" => Box::pin(async move { fin_unit(r.stop().await) }),
                    "kill" => Box::pin(async move { fin_unit(r.kill()) }),
                    _ => return None,
                }
            }
            _ => return None,
        };
        Some((target, fut))
    })
}

/// A future obtained by CALLING the API method at once (as `let f = r.ask_with_timeout(m, t);` does in user code) and polled
/// later.  The method borrows the handle, so the handle's Arc travels with the future (dropped after it: field order).
struct Eager {
    f: OpFut,
    _keep: Arc<dyn std::any::Any + Send + Sync>,
}
impl Future for Eager {
    type Output = OpOut;
    fn poll(mut self: Pin<&mut Self>, cx: &mut Context<'_>) -> Poll<OpOut> {
        self.f.as_mut().poll(cx)
    }
}

/// like `build`, but the API method is called here and now; only its returned future is polled later
fn build_eager(kind: &str, h: u64, m: u64, d: u64) -> Option<(String, OpFut)> {
    let dur = Duration::from_millis(d);
    with_handles(|hs| {
        let hh = hs.get(&h)?;
        macro_rules! eager {
            ($arc:expr, $ty:ty, $call:expr, $fin:ident) => {{
                let keep = $arc.clone();
                // SAFETY: the pointee lives as long as `keep`, which is stored next to the future and dropped after it
                let rr: &'static $ty = unsafe { &*Arc::as_ptr(&keep) };
                let f = $call(rr);
                let f2: OpFut = Box::pin(async move { $fin(f.await) });
                let e: OpFut = Box::pin(Eager { f: f2, _keep: keep });
                e
            }};
        }
        let odd = m % 2 == 1;
        let (target, fut): (String, OpFut) = match hh {
            H::S(r) => {
                let target = name_of(r.identity().id);
                let fut = match (kind, odd) {
                    ("tell", true) => eager!(r, ActorRef<S>, |x: &'static ActorRef<S>| x.tell(SMsg { m }), fin_unit),
                    ("ask", true) => eager!(r, ActorRef<S>, |x: &'static ActorRef<S>| x.ask(SMsg { m }), fin_str),
                    ("tellT", true) => eager!(r, ActorRef<S>, |x: &'static ActorRef<S>| x.tell_with_timeout(SMsg { m }, dur), fin_unit),
                    ("askT", true) => eager!(r, ActorRef<S>, |x: &'static ActorRef<S>| x.ask_with_timeout(SMsg { m }, dur), fin_str),
                    ("tell", false) => eager!(r, ActorRef<S>, |x: &'static ActorRef<S>| x.tell(Msg { m }), fin_unit),
                    ("ask", false) => eager!(r, ActorRef<S>, |x: &'static ActorRef<S>| x.ask(Msg { m }), fin_val),
                    ("tellT", false) => eager!(r, ActorRef<S>, |x: &'static ActorRef<S>| x.tell_with_timeout(Msg { m }, dur), fin_unit),
                    ("askT", false) => eager!(r, ActorRef<S>, |x: &'static ActorRef<S>| x.ask_with_timeout(Msg { m }, dur), fin_val),
                    ("askJ", _) => eager!(r, ActorRef<S>, |x: &'static ActorRef<S>| x.ask_join(JMsg { m }), fin_val),
                    _ => return None,
                };
                (target, fut)
            }
            H::Tell(r) => {
                let target = name_of(r.as_control().identity().id);
                type D = Box<dyn TellHandler<Msg>>;
                let fut = match kind {
                    "tell" => eager!(r, D, |x: &'static D| x.tell(Msg { m }), fin_unit),
                    "tellT" => eager!(r, D, |x: &'static D| x.tell_with_timeout(Msg { m }, dur), fin_unit),
                    _ => return None,
                };
                (target, fut)
            }
            H::Ask(r) => {
                let target = name_of(r.as_control().identity().id);
                type D = Box<dyn AskHandler<Msg, Val>>;
                let fut = match kind {
                    "ask" => eager!(r, D, |x: &'static D| x.ask(Msg { m }), fin_val),
                    "askT" => eager!(r, D, |x: &'static D| x.ask_with_timeout(Msg { m }, dur), fin_val),
                    _ => return None,
                };
                (target, fut)
            }
            _ => return None,
        };
        Some((target, fut))
    })
}

/// Instrumented operation: logs OpStart at creation, OpPending on a pending first poll
/// (with `tk` = a permit was taken from the pool during that poll) and OpEnd on completion.
pub struct Instr {
    pub op: u64,
    a: String,
    inner: OpFut,
    first: bool,
    done: bool,
    /// Some(d): created without being polled; OpArm is logged (and the deadline noted) at the first poll
    lazy: Option<u64>,
}

impl Instr {
    pub fn new(own: &str, kind: &str, h: u64, d: u64) -> Option<Instr> {
        Instr::make(own, kind, h, d, false)
    }
    /// the future of the operation, not yet polled
    pub fn new_lazy(own: &str, kind: &str, h: u64, d: u64) -> Option<Instr> {
        Instr::make(own, kind, h, d, true)
    }
    fn make(own: &str, kind: &str, h: u64, d: u64, lazy: bool) -> Option<Instr> {
        let needs_m = matches!(kind, "tell" | "ask" | "tellT" | "askT" | "askJ");
        // ids are allocated only if the op can be built
        let m_peek = if needs_m { NEXT_M.load(Ordering::SeqCst) } else { 0 };
        let (a, inner) = if lazy { build_eager(kind, h, m_peek, d)? } else { build(kind, h, m_peek, d)? };
        if needs_m {
            NEXT_M.fetch_add(1, Ordering::SeqCst);
        }
        let op = NEXT_OP.fetch_add(1, Ordering::SeqCst);
        if lazy {
            emit(json!({"e": "OpStart", "op": op, "own": own, "kind": kind, "h": h, "a": a,
                        "m": m_peek, "d": d, "now": NOW.load(Ordering::SeqCst), "lazy": true}));
        } else {
            emit(json!({"e": "OpStart", "op": op, "own": own, "kind": kind, "h": h, "a": a,
                        "m": m_peek, "d": d, "now": NOW.load(Ordering::SeqCst)}));
        }
        if kind != "kill" {
            PENDING.lock().unwrap_or_else(|e| e.into_inner()).insert(op);
        }
        if matches!(kind, "tellT" | "askT") && !lazy {
            DEADLINES.lock().unwrap_or_else(|e| e.into_inner()).insert(op, NOW.load(Ordering::SeqCst) + d);
        }
        let timed = matches!(kind, "tellT" | "askT");
        Some(Instr { op, a, inner, first: true, done: false, lazy: if lazy { Some(if timed { d } else { 0 }) } else { None } })
    }
}

impl Future for Instr {
    type Output = OpOut;
    fn poll(mut self: Pin<&mut Self>, cx: &mut Context<'_>) -> Poll<OpOut> {
        if let Some(d) = self.lazy.take() {
            let now = NOW.load(Ordering::SeqCst);
            emit(json!({"e": "OpArm", "op": self.op, "now": now}));
            if d > 0 {
                DEADLINES.lock().unwrap_or_else(|e| e.into_inner()).insert(self.op, now + d);
            }
        }
        let before = avail_of(&self.a);
        let prev = CUR_OP.with(|c| c.replace(self.op));
        let r = self.inner.as_mut().poll(cx);
        CUR_OP.with(|c| c.set(prev));
        match r {
            Poll::Pending => {
                if self.first {
                    let after = avail_of(&self.a);
                    emit(json!({"e": "OpPending", "op": self.op, "tk": after < before}));
                }
                self.first = false;
                Poll::Pending
            }
            Poll::Ready((res, val, retry)) => {
                self.done = true;
                PENDING.lock().unwrap_or_else(|e| e.into_inner()).remove(&self.op);
                DEADLINES.lock().unwrap_or_else(|e| e.into_inner()).remove(&self.op);
                emit(json!({"e": "OpEnd", "op": self.op, "res": res, "val": val,
                            "now": NOW.load(Ordering::SeqCst), "retry": retry}));
                Poll::Ready((res, val, retry))
            }
        }
    }
}

impl Drop for Instr {
    fn drop(&mut self) {
        if !self.done {
            PENDING.lock().unwrap_or_else(|e| e.into_inner()).remove(&self.op);
            DEADLINES.lock().unwrap_or_else(|e| e.into_inner()).remove(&self.op);
        }
    }
}

// ---------------------------------------------------------------------------------------------
// the actor

pub struct S {
    sh: Arc<Shared>,
    nh: u64,
    inst: u64,
    pub jl: Vec<String>,
}

async fn hook_gate(sh: &Shared, hook: &'static str) -> String {
    // a directive handed to a hook that never consumed it (an on_run future dropped because a
    // message won the select) does not carry over to the next hook
    sh.clear();
    loop {
        match GateFut(sh, hook).await {
            Dir::Out(o) => return o,
            Dir::Nest { kind, h, d, then } => match Instr::new(&sh.name, &kind, h, d) {
                Some(op) => {
                    let mut op = Box::pin(op);
                    match futures::poll!(op.as_mut()) {
                        // completed at once: the hook may have been told to finish in this very poll
                        Poll::Ready(_) => {
                            if let Some(o) = then {
                                return o;
                            }
                        }
                        Poll::Pending => {
                            let _ = op.await;
                        }
                    }
                }
                None => emit(json!({"e": "Inapplicable", "a": sh.name, "what": "nest"})),
            },
        }
    }
}

fn hexit(a: &str, hook: &str, m: u64, out: &str, v: u64) {
    emit(json!({"e": "HExit", "a": a, "hook": hook, "m": m, "out": out, "v": v}));
}

/// Wraps the body of one on_run invocation: logs every poll of the future (RunPoll), its
/// completion (RunEnd) and its being dropped unfinished (RunDrop: another select branch won).
struct RunWrap<'a> {
    inner: Pin<Box<dyn Future<Output = String> + Send + 'a>>,
    sh: &'a Shared,
    inst: u64,
    finished: bool,
}
impl Future for RunWrap<'_> {
    type Output = String;
    fn poll(mut self: Pin<&mut Self>, cx: &mut Context<'_>) -> Poll<String> {
        crate::log::emit_once(json!({"e": "RunPoll", "a": self.sh.name, "inst": self.inst}));
        match self.inner.as_mut().poll(cx) {
            Poll::Ready(o) => {
                self.finished = true;
                emit(json!({"e": "RunEnd", "a": self.sh.name, "inst": self.inst, "out": o}));
                Poll::Ready(o)
            }
            Poll::Pending => Poll::Pending,
        }
    }
}
impl Drop for RunWrap<'_> {
    fn drop(&mut self) {
        if !self.finished {
            {
                let mut g = self.sh.gate.lock().unwrap_or_else(|e| e.into_inner());
                if g.parked == "Run" {
                    g.parked = "";
                }
            }
            // drop the body first so that a nested operation it awaits is cancelled before the event
            self.inner = Box::pin(async { String::new() });
            // (a future dropped while its own task unwinds from a panic is not a lost select race)
            if !std::thread::panicking() {
                emit(json!({"e": "RunDrop", "a": self.sh.name, "inst": self.inst}));
            }
        }
    }
}

/// body of on_run: like any hook it waits on the gate and performs the operations it is told to
async fn run_body(sh: &Shared) -> String {
    if let Some(o) = sh.run_now.lock().unwrap_or_else(|e| e.into_inner()).take() {
        return o;
    }
    loop {
        match GateFut(sh, "Run").await {
            Dir::Out(o) => return o,
            Dir::Nest { kind, h, d, then } => match Instr::new(&sh.name, &kind, h, d) {
                Some(op) => {
                    let mut op = Box::pin(op);
                    match futures::poll!(op.as_mut()) {
                        // completed at once: the hook may have been told to finish in this very poll
                        Poll::Ready(_) => {
                            if let Some(o) = then {
                                return o;
                            }
                        }
                        Poll::Pending => {
                            let _ = op.await;
                        }
                    }
                }
                None => emit(json!({"e": "Inapplicable", "a": sh.name, "what": "nest"})),
            },
        }
    }
}

impl Actor for S {
    type Args = Arc<Shared>;
    type Error = ErrTok;

    async fn on_start(sh: Arc<Shared>, _r: &ActorRef<Self>) -> Result<Self, ErrTok> {
        emit(json!({"e": "HEnter", "a": sh.name, "hook": "start", "m": 0, "killed": false, "n": 0}));
        let out = hook_gate(&sh, "Start").await;
        hexit(&sh.name, "start", 0, &out, 0);
        match out.as_str() {
            "ok" => Ok(S { sh, nh: 0, inst: 0, jl: vec!["start".into()] }),
            "err" => Err(ErrTok("start".into())),
            _ => panic!("scripted"),
        }
    }

    async fn on_run(&mut self, _w: &ActorWeak<Self>) -> Result<bool, ErrTok> {
        self.inst += 1;
        let out = RunWrap { inner: Box::pin(run_body(&self.sh)), sh: &self.sh, inst: self.inst, finished: false }.await;
        match out.as_str() {
            "true" => {
                self.jl.push("run".into());
                Ok(true)
            }
            "false" => {
                self.jl.push("run".into());
                Ok(false)
            }
            "err" => Err(ErrTok("run".into())),
            _ => panic!("scripted"),
        }
    }

    async fn on_stop(&mut self, _w: &ActorWeak<Self>, killed: bool) -> Result<(), ErrTok> {
        emit(json!({"e": "HEnter", "a": self.sh.name, "hook": "stop", "m": 0, "killed": killed, "n": 0}));
        let out = hook_gate(&self.sh, "Stop").await;
        hexit(&self.sh.name, "stop", 0, &out, 0);
        match out.as_str() {
            "ok" => {
                self.jl.push("stop".into());
                Ok(())
            }
            "err" => Err(ErrTok("stop".into())),
            _ => panic!("scripted"),
        }
    }
}

impl Message<SMsg> for S {
    type Reply = String;
    async fn handle(&mut self, msg: SMsg, r: &ActorRef<Self>) -> String {
        let v = <S as Message<Msg>>::handle(self, Msg { m: msg.m }, r).await;
        v.0.to_string()
    }

    fn on_tell_result(result: &String, r: &ActorRef<Self>) {
        emit(json!({"e": "TellResult", "a": name_of(r.identity().id), "m": result.parse::<u64>().unwrap_or(0) / 100}));
    }
}

impl Message<Msg> for S {
    type Reply = Val;
    async fn handle(&mut self, msg: Msg, _r: &ActorRef<Self>) -> Val {
        self.nh += 1;
        emit(json!({"e": "HEnter", "a": self.sh.name, "hook": "handler", "m": msg.m,
                    "killed": false, "n": self.nh}));
        let out = hook_gate(&self.sh, "Handler").await;
        let v = msg.m * 100 + self.nh;
        if out == "ok" || out == "slow" || out == "veryslow" {
            if out == "slow" {
                std::thread::sleep(Duration::from_millis(3));
            }
            if out == "veryslow" {
                // longer than a second: durations are not only sub-second quantities
                std::thread::sleep(Duration::from_millis(1100));
            }
            hexit(&self.sh.name, "handler", msg.m, &out, v);
            self.jl.push("h".into());
            Val(v)
        } else {
            if out == "slowpanic" {
                std::thread::sleep(Duration::from_millis(3));
            }
            hexit(&self.sh.name, "handler", msg.m, if out == "slowpanic" { "slowpanic" } else { "panic" }, 0);
            panic!("scripted")
        }
    }

    fn on_tell_result(result: &Val, r: &ActorRef<Self>) {
        emit(json!({"e": "TellResult", "a": name_of(r.identity().id), "m": result.0 / 100}));
    }
}

impl Message<JMsg> for S {
    type Reply = tokio::task::JoinHandle<Val>;
    async fn handle(&mut self, msg: JMsg, _r: &ActorRef<Self>) -> tokio::task::JoinHandle<Val> {
        self.nh += 1;
        emit(json!({"e": "HEnter", "a": self.sh.name, "hook": "handler", "m": msg.m,
                    "killed": false, "n": self.nh}));
        let out = hook_gate(&self.sh, "Handler").await;
        let v = msg.m * 100 + self.nh;
        if out == "ok" || out == "slow" || out == "veryslow" {
            if out == "slow" {
                std::thread::sleep(Duration::from_millis(3));
            }
            if out == "veryslow" {
                // longer than a second: durations are not only sub-second quantities
                std::thread::sleep(Duration::from_millis(1100));
            }
            // the value the task will produce is fixed here; how it ends is decided by a later `task` command
            let (tx, rx) = tokio::sync::oneshot::channel::<String>();
            let rt = TASK_RT.lock().unwrap_or_else(|e| e.into_inner()).clone().expect("task runtime");
            let jh = rt.spawn(async move {
                match rx.await {
                    Ok(o) if o == "ok" => Val(v),
                    _ => panic!("scripted"),
                }
            });
            TASKS.lock().unwrap_or_else(|e| e.into_inner()).get_or_insert_with(HashMap::new).insert(msg.m, (tx, jh.abort_handle()));
            hexit(&self.sh.name, "handler", msg.m, &out, v);
            self.jl.push("h".into());
            jh
        } else {
            if out == "slowpanic" {
                std::thread::sleep(Duration::from_millis(3));
            }
            hexit(&self.sh.name, "handler", msg.m, if out == "slowpanic" { "slowpanic" } else { "panic" }, 0);
            panic!("scripted")
        }
    }
}
