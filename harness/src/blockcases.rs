//! Spec -> implementation replay for spec/Blocking.tla: every terminal state of the model is a
//! case (caller context x actor home x actor state x api x form x direct/erased) with an outcome.
//! Each case is executed here on real threads and real runtimes; the observed outcome class,
//! the return time and whether the message reached the mailbox are written out for comparison.

use rsactor::{Actor, ActorRef, ActorResult, ActorWeak, AskHandler, Error, Message, TellHandler};
use serde_json::{json, Value};
use std::sync::atomic::{AtomicU64, Ordering};
use std::sync::mpsc;
use std::sync::Arc;
use std::time::{Duration, Instant};
use tokio::runtime::{Builder, Handle, Runtime};
use tokio::sync::Notify;
use tokio::task::JoinHandle;

pub struct B {
    gate: Arc<Notify>,
    handled: Arc<AtomicU64>,
}
#[derive(Clone)]
pub struct BArgs {
    gate: Arc<Notify>,
    handled: Arc<AtomicU64>,
}
pub struct Work(u64);
pub struct Freeze;
/// a handler that takes this long and then finishes (mode "thaw")
pub struct SlowFor(Duration);

impl Actor for B {
    type Args = BArgs;
    type Error = std::convert::Infallible;
    async fn on_start(a: BArgs, _r: &ActorRef<Self>) -> Result<Self, Self::Error> {
        Ok(B { gate: a.gate, handled: a.handled })
    }
}

impl Message<Work> for B {
    type Reply = u64;
    async fn handle(&mut self, m: Work, _r: &ActorRef<Self>) -> u64 {
        if m.0 == 7 {
            self.handled.fetch_add(1, Ordering::SeqCst);
        }
        m.0 + 1
    }
}

impl Message<SlowFor> for B {
    type Reply = ();
    async fn handle(&mut self, m: SlowFor, _r: &ActorRef<Self>) {
        tokio::time::sleep(m.0).await;
    }
}

impl Message<Freeze> for B {
    type Reply = ();
    async fn handle(&mut self, _m: Freeze, _r: &ActorRef<Self>) {
        self.gate.notified().await;
    }
}

#[derive(Clone)]
struct Case {
    ctx: String,
    home: String,
    mode: String,
    api: String,
    form: String,
    via: String,
}

fn class<X>(r: &Result<X, Error>) -> &'static str {
    match r {
        Ok(_) => "ok",
        Err(Error::Send { .. }) => "send",
        Err(Error::Timeout { .. }) => "timeout",
        Err(Error::Receive { .. }) => "recv",
        Err(_) => "other",
    }
}

/// the call under test, exactly as a user would write it
#[allow(deprecated)]
fn the_call(r: &ActorRef<B>, c: &Case, t: Duration) -> &'static str {
    let to = if c.form == "untimed" { None } else { Some(t) };
    let erased = c.via == "erased";
    match (c.api.as_str(), c.form.as_str()) {
        ("tell", "alias") => class(&r.tell_blocking(Work(7), to)),
        ("ask", "alias") => class(&r.ask_blocking(Work(7), to)),
        ("tell", _) => {
            if erased {
                let h: Box<dyn TellHandler<Work>> = r.into();
                class(&h.blocking_tell(Work(7), to))
            } else {
                class(&r.blocking_tell(Work(7), to))
            }
        }
        _ => {
            if erased {
                let h: Box<dyn AskHandler<Work, u64>> = r.into();
                class(&h.blocking_ask(Work(7), to))
            } else {
                class(&r.blocking_ask(Work(7), to))
            }
        }
    }
}

type Made = (ActorRef<B>, JoinHandle<ActorResult<B>>);

/// bring the actor into the state the case asks for (runs on the actor's home runtime)
async fn setup(mode: String, args: BArgs, t: Duration) -> Made {
    let (r, jh) = rsactor::spawn_with_mailbox_capacity::<B>(args, 1);
    let probe: ActorWeak<B> = ActorRef::downgrade(&r);
    match mode.as_str() {
        "dead" => {
            let _ = r.stop().await;
            for _ in 0..2000 {
                if !r.is_alive() {
                    break;
                }
                tokio::time::sleep(Duration::from_millis(1)).await;
            }
        }
        "frozen" | "full" => {
            let _ = r.tell(Freeze).await;
            for _ in 0..2000 {
                if probe.__verif_counts().1 == 1 {
                    break; // the Freeze message has been taken: the handler is parked on the gate
                }
                tokio::time::sleep(Duration::from_millis(1)).await;
            }
            if mode == "full" {
                let _ = r.tell(Work(0)).await;
            }
        }
        "thaw" => {
            // busy for 0.8 T in a handler that then finishes; behind it, filling the only slot, a message whose handler never
            // finishes: the slot becomes free before the deadline, a reply does not come
            let _ = r.tell(SlowFor(t.mul_f64(0.8))).await;
            for _ in 0..2000 {
                if probe.__verif_counts().1 == 1 {
                    break;
                }
                tokio::time::sleep(Duration::from_micros(200)).await;
            }
            let _ = r.tell(Freeze).await;
        }
        _ => {
            // make sure the actor is up and idle
            let _ = r.ask(Work(0)).await;
        }
    }
    (r, jh)
}

fn run_case(c: Case, t_us: u64, other: Handle) -> Value {
    let t = Duration::from_micros(t_us);
    let gate = Arc::new(Notify::new());
    let handled = Arc::new(AtomicU64::new(0));
    let args = BArgs { gate: gate.clone(), handled: handled.clone() };
    let (tx, rx) = mpsc::channel::<(&'static str, u128)>(); // result class, elapsed microseconds (rounded up)
    let (atx, arx) = mpsc::channel::<ActorRef<B>>();
    let (dtx, drx) = mpsc::channel::<()>(); // "the case is over": lets a current-thread driver finish
    let call = {
        let c = c.clone();
        move |r: ActorRef<B>| {
            let t0 = Instant::now();
            let res = std::panic::catch_unwind(std::panic::AssertUnwindSafe(|| the_call(&r, &c, t))).unwrap_or("panic");
            let _ = tx.send((res, t0.elapsed().as_nanos().div_ceil(1000)));
        }
    };
    let mut caller_rt: Option<Runtime> = None;
    match c.ctx.as_str() {
        "thread" => {
            let made = other.block_on(setup(c.mode.clone(), args, t));
            let _ = atx.send(made.0.clone());
            std::thread::spawn(move || call(made.0));
        }
        "spawn_blocking" | "mt_worker" | "mt1_worker" => {
            let workers = if c.ctx == "mt1_worker" { 1 } else { 2 };
            let rt = Builder::new_multi_thread().worker_threads(workers).enable_time().build().unwrap();
            let made = if c.home == "caller_rt" { rt.block_on(setup(c.mode.clone(), args, t)) } else { other.block_on(setup(c.mode.clone(), args, t)) };
            let _ = atx.send(made.0.clone());
            if c.ctx == "spawn_blocking" {
                rt.spawn_blocking(move || call(made.0));
            } else {
                rt.spawn(async move { call(made.0) });
            }
            caller_rt = Some(rt);
        }
        _ => {
            // an async task of a current-thread runtime: this thread is the runtime's only driver
            let premade = if c.home == "other" { Some(other.block_on(setup(c.mode.clone(), args.clone(), t))) } else { None };
            let mode = c.mode.clone();
            std::thread::spawn(move || {
                let rt = Builder::new_current_thread().enable_time().build().unwrap();
                rt.block_on(async move {
                    let made = match premade {
                        Some(m) => m,
                        None => setup(mode, args, t).await,
                    };
                    let _ = atx.send(made.0.clone());
                    call(made.0);
                    // keep driving the runtime (the actor may live here) until the case is over
                    for _ in 0..4000 {
                        if drx.try_recv().is_ok() {
                            break;
                        }
                        tokio::time::sleep(Duration::from_millis(1)).await;
                    }
                });
            });
        }
    }
    // a timed call must be back by T (+ slack); an untimed one that has not returned after a while is "blocked"
    let limit = if c.form == "timed" {
        t + Duration::from_millis(1500) + if c.mode == "thaw" { t } else { Duration::ZERO }
    } else if c.mode == "thaw" {
        t + Duration::from_millis(400) // an untimed tell returns when the slot is freed (0.8 T)
    } else {
        Duration::from_millis(400)
    };
    let (res, us) = match rx.recv_timeout(limit) {
        Ok((r, us)) => (r, us as u64),
        Err(_) => ("blocked", 0),
    };
    // thaw the actor; a barrier ask tells when everything queued before it has been handled
    let aref = arx.recv_timeout(Duration::from_millis(3000)).ok();
    gate.notify_one();
    let mut delivered = 0;
    if let Some(r) = &aref {
        if c.mode != "dead" {
            let r2 = r.clone();
            let _ = other.block_on(async move { tokio::time::timeout(Duration::from_millis(1500), r2.ask(Work(1))).await });
        }
        delivered = handled.load(Ordering::SeqCst);
        let _ = r.kill();
    }
    let _ = dtx.send(());
    if let Some(rt) = caller_rt {
        rt.shutdown_background();
    }
    json!({"cfg": {"ctx": c.ctx, "home": c.home, "mode": c.mode, "api": c.api, "form": c.form, "via": c.via},
           "res": res, "us": us, "delivered": delivered, "t_us": t_us})
}

pub fn run_blockcases(cases: &[Value], t_us: u64, par: usize) -> Vec<Value> {
    let other = Builder::new_multi_thread().worker_threads(4).enable_time().build().unwrap();
    let mut out = Vec::new();
    for chunk in cases.chunks(par.max(1)) {
        let mut hs = Vec::new();
        for v in chunk {
            let g = |k: &str| v["cfg"][k].as_str().unwrap_or("").to_string();
            let c = Case { ctx: g("ctx"), home: g("home"), mode: g("mode"), api: g("api"), form: g("form"), via: g("via") };
            let h = other.handle().clone();
            hs.push(std::thread::spawn(move || run_case(c, t_us, h)));
        }
        for h in hs {
            if let Ok(v) = h.join() {
                out.push(v);
            }
        }
    }
    other.shutdown_background();
    out
}
