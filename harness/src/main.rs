mod blockcases;
mod log;
mod oracles;
mod replay;
mod scripted;
mod stress;

use serde_json::{json, Value};
use std::io::{BufRead, Write};

fn feats() -> Value {
    json!({
        "tracing": cfg!(feature = "tracing"),
        "metrics": cfg!(feature = "metrics"),
        "tu": cfg!(feature = "test-utils"),
        "dd": cfg!(feature = "deadlock-detection"),
    })
}

fn arg(args: &[String], name: &str) -> Option<String> {
    args.iter().position(|a| a == name).and_then(|i| args.get(i + 1).cloned())
}

fn main() {
    let args: Vec<String> = std::env::args().collect();
    let sub = args.get(1).map(|s| s.as_str()).unwrap_or("");
    std::panic::set_hook(Box::new(|_| {}));
    if sub == "stress" || sub == "teardown" || sub == "spawnids" {
        tracing::subscriber::set_global_default(stress::StressCapture).expect("subscriber");
    } else {
        let cap = log::Capture::new(vec![std::any::type_name::<scripted::Msg>(), std::any::type_name::<scripted::JMsg>(), std::any::type_name::<scripted::SMsg>()], false);
        tracing::subscriber::set_global_default(cap).expect("subscriber");
    }
    match sub {
        "blockcases" => {
            let inp = arg(&args, "--in").expect("--in");
            let out = arg(&args, "--out").expect("--out");
            let t: u64 = arg(&args, "--t-us").and_then(|s| s.parse().ok()).unwrap_or(100_300);
            let par: usize = arg(&args, "--par").and_then(|s| s.parse().ok()).unwrap_or(12);
            let cases: Vec<Value> = serde_json::from_str(&std::fs::read_to_string(&inp).expect("read --in")).expect("json");
            let res = blockcases::run_blockcases(&cases, t, par);
            std::fs::write(&out, serde_json::to_string(&res).unwrap()).expect("write --out");
            println!("blockcases: cases={}", res.len());
        }
        "stress" => {
            let iters: u64 = arg(&args, "--iters").and_then(|s| s.parse().ok()).unwrap_or(100);
            let seed: u64 = arg(&args, "--seed").and_then(|s| s.parse().ok()).unwrap_or(1);
            let par: usize = arg(&args, "--par").and_then(|s| s.parse().ok()).unwrap_or(8);
            let mix: &'static str = match arg(&args, "--mix").as_deref() {
                Some("async") => "async",
                Some("blocking") => "blocking",
                Some("frozen") => "frozen",
                _ => "mixed",
            };
            let out = arg(&args, "--out").expect("--out");
            let (runs, events) = stress::run_stress(iters, seed, par, mix, &out, feats());
            println!("stress: runs={runs} events={events}");
        }
        "replay" => {
            let inp = arg(&args, "--in").expect("--in");
            let out = arg(&args, "--out").expect("--out");
            let report = arg(&args, "--report").expect("--report");
            let erased = arg(&args, "--via").as_deref() == Some("erased");
            let f = std::io::BufReader::new(std::fs::File::open(&inp).expect("open --in"));
            let mut o = std::io::BufWriter::new(std::fs::File::create(&out).expect("create --out"));
            let mut drifts: Vec<Value> = Vec::new();
            let mut runs = 0u64;
            let mut events = 0u64;
            let mut inappl = 0u64;
            let mut ndrift = 0u64;
            for line in f.lines() {
                let line = line.expect("read");
                if line.trim().is_empty() {
                    continue;
                }
                let v: Value = serde_json::from_str(&line).expect("json");
                let steps: Vec<Value> = match &v {
                    Value::Array(a) => a.clone(),
                    Value::Object(m) => m.get("steps").and_then(|s| s.as_array()).cloned().unwrap_or_default(),
                    _ => vec![],
                };
                runs += 1;
                let (evs, d, ina) = replay::run_schedule(runs, &steps, erased, &feats());
                inappl += ina;
                events += evs.len() as u64;
                for e in &evs {
                    serde_json::to_writer(&mut o, e).unwrap();
                    o.write_all(b"\n").unwrap();
                }
                ndrift += d.len() as u64;
                if drifts.len() < 5 {
                    drifts.extend(d);
                }
            }
            o.flush().unwrap();
            let rep = json!({"runs": runs, "events": events, "drift": ndrift, "inapplicable": inappl,
                             "first_drifts": drifts, "feats": feats()});
            std::fs::write(&report, serde_json::to_string_pretty(&rep).unwrap()).unwrap();
            println!("replay: runs={runs} events={events} drift={ndrift} inapplicable={inappl}");
        }
        "teardown" => {
            let iters: u64 = arg(&args, "--iters").and_then(|s| s.parse().ok()).unwrap_or(1000);
            let seed: u64 = arg(&args, "--seed").and_then(|s| s.parse().ok()).unwrap_or(1);
            let sample: u64 = arg(&args, "--sample").and_then(|s| s.parse().ok()).unwrap_or(100);
            let out = arg(&args, "--out").expect("--out");
            let (asks, hung, written) = stress::run_teardown(iters, seed, &out, feats(), sample);
            println!("teardown: iterations={iters} asks={asks} runs_with_pending={hung} runs_written={written}");
        }
        "spawnids" => {
            let threads: usize = arg(&args, "--threads").and_then(|s| s.parse().ok()).unwrap_or(16);
            let per: usize = arg(&args, "--per").and_then(|s| s.parse().ok()).unwrap_or(1000);
            let out = arg(&args, "--out").expect("--out");
            let n = stress::run_spawnids(threads, per, &out);
            println!("spawnids: {n}");
        }
        "laws" => {
            let inp = arg(&args, "--in").expect("--in");
            let out = arg(&args, "--out").expect("--out");
            let vals: Vec<Value> = serde_json::from_str(&std::fs::read_to_string(&inp).unwrap()).unwrap();
            let mut o = std::io::BufWriter::new(std::fs::File::create(&out).unwrap());
            for r in oracles::laws(&vals) {
                serde_json::to_writer(&mut o, &r).unwrap();
                o.write_all(b"\n").unwrap();
            }
            o.flush().unwrap();
            println!("laws: {}", vals.len());
        }
        "capprobe" => {
            let ops: Vec<Value> = serde_json::from_str(&arg(&args, "--ops").expect("--ops")).unwrap();
            println!("{}", oracles::capprobe(&ops));
        }
        _ => {
            eprintln!("usage: vh replay --in F --out F --report F [--via erased]");
            std::process::exit(2);
        }
    }
}
