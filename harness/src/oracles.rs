//! Enumerated-oracle channel: ActorResult accessor laws (C05) and mailbox-capacity
//! configuration behaviours (C09).  Inputs are produced by TLC, outputs are validated by TLC.

use crate::scripted::{Msg, Shared, S};
use futures::FutureExt;
use rsactor::{Actor, ActorRef, ActorResult, FailurePhase};
use serde_json::{json, Value};

const TAG: u64 = 4242;
const ETAG: u64 = 777;

pub struct LawActor {
    tag: u64,
}
#[derive(Debug)]
pub struct LawErr(u64);
impl Actor for LawActor {
    type Args = ();
    type Error = LawErr;
    async fn on_start(_: (), _: &ActorRef<Self>) -> Result<Self, LawErr> {
        Ok(LawActor { tag: TAG })
    }
}

fn build(v: &Value) -> ActorResult<LawActor> {
    let killed = v["killed"].as_bool().unwrap();
    if v["variant"] == "Completed" {
        ActorResult::Completed { actor: LawActor { tag: TAG }, killed }
    } else {
        let phase = match v["phase"].as_str().unwrap() {
            "OnStart" => FailurePhase::OnStart,
            "OnRun" => FailurePhase::OnRun,
            "OnStop" => FailurePhase::OnStop,
            _ => FailurePhase::OnRunThenOnStop,
        };
        ActorResult::Failed {
            actor: if v["has"].as_bool().unwrap() { Some(LawActor { tag: TAG }) } else { None },
            error: LawErr(ETAG),
            phase,
            killed,
        }
    }
}

pub fn laws(values: &[Value]) -> Vec<Value> {
    values
        .iter()
        .map(|v| {
            let r = build(v);
            let phase_display = match &r {
                ActorResult::Failed { phase, .. } => format!("{phase}"),
                _ => String::new(),
            };
            let actor_same = r.actor().map(|a| a.tag) == Some(TAG) && build(v).into_actor().map(|a| a.tag) == Some(TAG);
            let error_same = r.error().map(|e| e.0) == Some(ETAG) && build(v).into_error().map(|e| e.0) == Some(ETAG);
            let (to_ok, to_same) = match build(v).to_result() {
                Ok(a) => (true, a.tag == TAG),
                Err(e) => (false, e.0 == ETAG),
            };
            let (ta, te): (Option<LawActor>, Option<LawErr>) = build(v).into();
            json!({"value": v, "out": {
                "is_completed": r.is_completed(), "is_failed": r.is_failed(), "was_killed": r.was_killed(),
                "stopped_normally": r.stopped_normally(), "is_startup_failed": r.is_startup_failed(),
                "is_runtime_failed": r.is_runtime_failed(), "is_cleanup_failed": r.is_cleanup_failed(),
                "is_stop_failed": r.is_stop_failed(), "has_actor": r.has_actor(),
                "actor_some": r.actor().is_some(), "actor_same": actor_same,
                "error_some": r.error().is_some(), "error_same": error_same,
                "to_result_ok": to_ok, "to_result_same": to_same,
                "tuple_actor": ta.map(|a| a.tag) == Some(TAG), "tuple_error": te.map(|e| e.0) == Some(ETAG),
                "phase_display": phase_display}})
        })
        .collect()
}

/// Executes one capacity-configuration behaviour in THIS process (must be fresh).
pub fn capprobe(ops: &[Value]) -> Value {
    let rt = tokio::runtime::Builder::new_current_thread().enable_time().build().unwrap();
    let mut out = Vec::new();
    for o in ops {
        let n = o["n"].as_u64().unwrap() as usize;
        match o["op"].as_str().unwrap() {
            "set" => {
                let r = rsactor::set_default_mailbox_capacity(n);
                out.push(json!({"res": if r.is_ok() { "ok" } else { "err" }, "max": 0, "filled": 0}));
            }
            kind => {
                let spawned = std::panic::catch_unwind(std::panic::AssertUnwindSafe(|| {
                    let _g = rt.enter();
                    let sh = Shared::new("probe");
                    if kind == "spawn" {
                        rsactor::spawn::<S>(sh)
                    } else {
                        rsactor::spawn_with_mailbox_capacity::<S>(sh, n)
                    }
                }));
                match spawned {
                    Err(_) => out.push(json!({"res": "panic", "max": 0, "filled": 0})),
                    Ok((aref, _jh)) => {
                        // the actor task is never polled, so nothing is taken from the mailbox
                        let max = ActorRef::downgrade(&aref).__verif_counts().0;
                        let mut filled = 0usize;
                        loop {
                            let done = {
                                let fut = aref.tell(Msg { m: filled as u64 + 1 });
                                futures::pin_mut!(fut);
                                fut.now_or_never()
                            };
                            match done {
                                Some(Ok(())) => filled += 1,
                                _ => break,
                            }
                            if filled > 10_000 {
                                break;
                            }
                        }
                        out.push(json!({"res": "cap", "max": max, "filled": filled}));
                    }
                }
            }
        }
    }
    json!({"ops": ops, "out": out})
}
