//! Event log shared by all harness channels, plus the tracing subscriber that turns
//! `dead_letter::record` (and other rsactor log lines) into trace events.

use serde_json::{json, Value};
use std::cell::Cell;
use std::collections::HashMap;
use std::sync::atomic::{AtomicU64, Ordering};
use std::sync::Mutex;

pub static LOG: Mutex<Vec<Value>> = Mutex::new(Vec::new());
/// raw actor id -> harness actor name
pub static IDMAP: Mutex<Option<HashMap<u64, String>>> = Mutex::new(None);
/// global ticket for the stress channel (0 = tickets disabled)
pub static TICKETS: AtomicU64 = AtomicU64::new(0);
pub static USE_TICKETS: std::sync::atomic::AtomicBool = std::sync::atomic::AtomicBool::new(false);

thread_local! {
    /// op currently being polled on this thread (attribution of dead letters)
    pub static CUR_OP: Cell<u64> = const { Cell::new(0) };
}

pub fn emit(mut v: Value) {
    if USE_TICKETS.load(Ordering::Relaxed) {
        let t = TICKETS.fetch_add(1, Ordering::SeqCst);
        v["t"] = json!(t);
    }
    LOG.lock().unwrap_or_else(|e| e.into_inner()).push(v);
}

/// like `emit`, but an event identical to the last one logged is not repeated (two polls of the same on_run
/// invocation with nothing in between -- a task woken twice inside one burst -- are one observation)
pub fn emit_once(v: Value) {
    {
        let g = LOG.lock().unwrap_or_else(|e| e.into_inner());
        if g.last() == Some(&v) {
            return;
        }
    }
    emit(v);
}

pub fn log_len() -> usize {
    LOG.lock().unwrap_or_else(|e| e.into_inner()).len()
}

pub fn take_from(start: usize) -> Vec<Value> {
    let g = LOG.lock().unwrap_or_else(|e| e.into_inner());
    g[start..].to_vec()
}

pub fn take_all() -> Vec<Value> {
    std::mem::take(&mut *LOG.lock().unwrap_or_else(|e| e.into_inner()))
}

pub fn name_of(id: u64) -> String {
    IDMAP
        .lock()
        .unwrap_or_else(|e| e.into_inner())
        .as_ref()
        .and_then(|m| m.get(&id).cloned())
        .unwrap_or_else(|| format!("?{id}"))
}

pub fn register_id(id: u64, name: &str) {
    let mut g = IDMAP.lock().unwrap_or_else(|e| e.into_inner());
    g.get_or_insert_with(HashMap::new).insert(id, name.to_string());
}

pub fn clear_ids() {
    *IDMAP.lock().unwrap_or_else(|e| e.into_inner()) = Some(HashMap::new());
}

// ---------------------------------------------------------------------------------------------
// tracing subscriber

#[derive(Default)]
struct FieldGrab {
    message: String,
    fields: HashMap<String, String>,
}

impl tracing::field::Visit for FieldGrab {
    fn record_debug(&mut self, field: &tracing::field::Field, value: &dyn std::fmt::Debug) {
        let s = format!("{value:?}");
        if field.name() == "message" {
            self.message = s;
        } else {
            self.fields.insert(field.name().to_string(), s);
        }
    }
    fn record_str(&mut self, field: &tracing::field::Field, value: &str) {
        if field.name() == "message" {
            self.message = value.to_string();
        } else {
            self.fields.insert(field.name().to_string(), value.to_string());
        }
    }
    fn record_u64(&mut self, field: &tracing::field::Field, value: u64) {
        self.fields.insert(field.name().to_string(), value.to_string());
    }
}

pub struct Capture {
    next_span: AtomicU64,
    /// expected `message.type_name` values (any of them counts as "the right type")
    pub msg_types: Vec<&'static str>,
    /// also record error-level events as ErrLog
    pub errlog: bool,
}

impl Capture {
    pub fn new(msg_types: Vec<&'static str>, errlog: bool) -> Self {
        Capture { next_span: AtomicU64::new(1), msg_types, errlog }
    }
}

impl tracing::Subscriber for Capture {
    fn enabled(&self, _m: &tracing::Metadata<'_>) -> bool {
        true
    }
    fn new_span(&self, _s: &tracing::span::Attributes<'_>) -> tracing::span::Id {
        tracing::span::Id::from_u64(self.next_span.fetch_add(1, Ordering::Relaxed))
    }
    fn record(&self, _s: &tracing::span::Id, _v: &tracing::span::Record<'_>) {}
    fn record_follows_from(&self, _s: &tracing::span::Id, _f: &tracing::span::Id) {}
    fn event(&self, event: &tracing::Event<'_>) {
        let level = *event.metadata().level();
        if level > tracing::Level::WARN {
            return;
        }
        let mut g = FieldGrab::default();
        event.record(&mut g);
        if g.message.starts_with("Dead letter") {
            let id: u64 = g.fields.get("actor.id").and_then(|s| s.parse().ok()).unwrap_or(0);
            let reason = match g.fields.get("dead_letter.reason").map(|s| s.as_str()) {
                Some("actor stopped") => "stopped",
                Some("timeout") => "timeout",
                Some("reply dropped") => "dropped",
                _ => "other",
            };
            let opn = g.fields.get("dead_letter.operation").cloned().unwrap_or_default();
            let mt = g
                .fields
                .get("message.type_name")
                .map(|s| self.msg_types.iter().any(|t| t == s))
                .unwrap_or(false);
            emit(json!({"e": "DeadLetter", "op": CUR_OP.with(|c| c.get()), "a": name_of(id),
                        "reason": reason, "opn": opn, "mt": mt}));
        } else if self.errlog && level == tracing::Level::ERROR {
            emit(json!({"e": "ErrLog", "msg": g.message, "fields": g.fields}));
        }
    }
    fn enter(&self, _s: &tracing::span::Id) {}
    fn exit(&self, _s: &tracing::span::Id) {}
}
