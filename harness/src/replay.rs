//! Channel A: execute TLC-generated schedules on the real rsactor, one paused
//! current_thread runtime per actor, client futures polled by hand.

use crate::log::{clear_ids, emit, log_len, name_of, register_id, take_from};
use crate::scripted::*;
use rsactor::{ActorRef, ActorResult, ActorWeak};
use serde_json::{json, Value};
use std::collections::BTreeMap;
use std::future::Future;
use std::pin::Pin;
use std::sync::atomic::{AtomicBool, Ordering};
use std::sync::Arc;
use std::task::{Context, Poll, Wake, Waker};
use std::time::Duration;
use tokio::runtime::Runtime;

struct Flag(AtomicBool);
impl Wake for Flag {
    fn wake(self: Arc<Self>) {
        self.0.store(true, Ordering::SeqCst);
    }
}

struct ActorSlot {
    rt: Runtime,
    sh: Arc<Shared>,
    jh: Option<tokio::task::JoinHandle<ActorResult<S>>>,
    rt_now: u64,
    raw_id: u64,
}

struct ClientOp {
    fut: Pin<Box<Instr>>,
    flag: Arc<Flag>,
}

pub struct World {
    actors: BTreeMap<String, ActorSlot>,
    order: Vec<String>,
    clients: BTreeMap<String, ClientOp>,
    client_rt: Runtime,
    task_rt: Runtime,
    next_h: u64,
    id_base: Option<u64>,
    pub inapplicable: u64,
    pub erased: bool,
}


fn new_rt() -> Runtime {
    tokio::runtime::Builder::new_current_thread()
        .enable_time()
        .start_paused(true)
        .build()
        .expect("runtime")
}

fn dlc() -> i64 {
    #[cfg(feature = "test-utils")]
    {
        rsactor::dead_letter_count() as i64
    }
    #[cfg(not(feature = "test-utils"))]
    {
        -1
    }
}

impl World {
    pub fn new(erased: bool) -> World {
        clear_ids();
        with_handles(|h| h.clear());
        *SAMPLERS.lock().unwrap_or_else(|e| e.into_inner()) = Some(Default::default());
        PENDING.lock().unwrap_or_else(|e| e.into_inner()).clear();
        DEADLINES.lock().unwrap_or_else(|e| e.into_inner()).clear();
        NEXT_OP.store(1, Ordering::SeqCst);
        NEXT_M.store(1, Ordering::SeqCst);
        NOW.store(0, Ordering::SeqCst);
        #[cfg(feature = "test-utils")]
        rsactor::reset_dead_letter_count();
        let task_rt = new_rt();
        *TASK_RT.lock().unwrap_or_else(|e| e.into_inner()) = Some(task_rt.handle().clone());
        *TASKS.lock().unwrap_or_else(|e| e.into_inner()) = Some(Default::default());
        World {
            actors: BTreeMap::new(),
            order: Vec::new(),
            clients: BTreeMap::new(),
            client_rt: new_rt(),
            task_rt,
            next_h: 1,
            id_base: None,
            inapplicable: 0,
            erased,
        }
    }

    fn sample_all(&self) {
        let g = SAMPLERS.lock().unwrap_or_else(|e| e.into_inner());
        for a in &self.order {
            if let Some(w) = g.as_ref().and_then(|m| m.get(a)) {
                let (max, avail, strong, closed) = w.__verif_counts();
                #[cfg(feature = "metrics")]
                let mcnt: i64 = w.upgrade().map(|r| r.message_count() as i64).unwrap_or(-1);
                #[cfg(not(feature = "metrics"))]
                let mcnt: i64 = -1;
                emit(json!({"e": "Sample", "a": a, "max": max,
                            "avail": if closed { 0 } else { avail },
                            "strong": strong, "closed": closed, "dlc": dlc(), "mcnt": mcnt}));
            }
        }
    }

    fn inappl(&mut self, what: &str) {
        self.inapplicable += 1;
        emit(json!({"e": "Inapplicable", "what": what}));
    }

    fn check_join(&mut self, a: &str) {
        let Some(slot) = self.actors.get_mut(a) else { return };
        let Some(jh) = slot.jh.as_mut() else { return };
        if !jh.is_finished() {
            return;
        }
        let w = Waker::noop();
        let mut cx = Context::from_waker(w);
        let r = match Pin::new(jh).poll(&mut cx) {
            Poll::Ready(r) => r,
            Poll::Pending => return,
        };
        slot.jh = None;
        let ev = match r {
            Ok(ActorResult::Completed { actor, killed }) => json!({
                "e": "Joined", "a": a, "jl": actor.jl, "cyc": [],
                "res": {"k": "completed", "phase": "", "killed": killed, "has": true, "err": "", "msg": ""}}),
            Ok(ActorResult::Failed { actor, error, phase, killed }) => json!({
                "e": "Joined", "a": a,
                "jl": actor.as_ref().map(|x| x.jl.clone()).unwrap_or_default(), "cyc": [],
                "res": {"k": "failed", "phase": format!("{phase}"), "killed": killed,
                        "has": actor.is_some(), "err": error.0, "msg": ""}}),
            Err(je) => {
                let (msg, cyc) = if je.is_panic() {
                    let p = je.into_panic();
                    let s = p
                        .downcast_ref::<String>()
                        .cloned()
                        .or_else(|| p.downcast_ref::<&str>().map(|s| s.to_string()))
                        .unwrap_or_default();
                    if s == "scripted" {
                        ("scripted".to_string(), vec![])
                    } else if let Some(rest) = s.strip_prefix("Deadlock detected: ask cycle ") {
                        let line = rest.lines().next().unwrap_or("");
                        let cyc: Vec<String> = line
                            .split(" -> ")
                            .map(|part| {
                                let id = part
                                    .rsplit("(#")
                                    .next()
                                    .and_then(|x| x.trim_end_matches(')').parse::<u64>().ok())
                                    .unwrap_or(0);
                                name_of(id)
                            })
                            .collect();
                        ("deadlock".to_string(), cyc)
                    } else {
                        (format!("other:{s}"), vec![])
                    }
                } else {
                    ("cancelled".to_string(), vec![])
                };
                json!({"e": "Joined", "a": a, "jl": [], "cyc": cyc,
                       "res": {"k": "panic", "phase": "", "killed": false, "has": false, "err": "", "msg": msg}})
            }
        };
        emit(ev);
    }

    /// one burst of actor `a`: bring its clock up to date, let its task run until it parks
    fn run_actor(&mut self, a: &str) {
        let now = NOW.load(Ordering::SeqCst);
        let Some(slot) = self.actors.get_mut(a) else { return };
        let lag = now.saturating_sub(slot.rt_now);
        slot.rt_now = now;
        let mut quiet = 0;
        let mut first = true;
        for _ in 0..64 {
            let before = log_len();
            let adv = if first { lag } else { 0 };
            first = false;
            slot.rt.block_on(async move {
                if adv > 0 {
                    tokio::time::advance(Duration::from_millis(adv)).await;
                }
                tokio::task::yield_now().await;
            });
            if log_len() == before {
                quiet += 1;
                if quiet >= 2 {
                    break;
                }
            } else {
                quiet = 0;
            }
        }
        slot.sh.clear();
        self.check_join(a);
    }

    fn poll_client(&mut self, cl: &str) -> bool {
        let Some(c) = self.clients.get_mut(cl) else { return false };
        let _g = self.client_rt.enter();
        c.flag.0.store(false, Ordering::SeqCst);
        let w = Waker::from(c.flag.clone());
        let mut cx = Context::from_waker(&w);
        match c.fut.as_mut().poll(&mut cx) {
            Poll::Ready(_) => {
                self.clients.remove(cl);
                true
            }
            Poll::Pending => false,
        }
    }

    pub fn exec(&mut self, cmd: &Value) {
        self.exec_expect(cmd, None)
    }

    /// `exp_hook`: the hook the model believes is parked on the gate (from its predicted events);
    /// a directive is only handed over if the implementation is parked in that same hook.
    pub fn exec_expect(&mut self, cmd: &Value, exp_hook: Option<&str>) {
        let c = cmd["c"].as_str().unwrap_or("");
        emit(json!({"e": "Cmd", "cmd": cmd}));
        match c {
            "spawn" => {
                let a = cmd["a"].as_str().unwrap().to_string();
                let cap = cmd["cap"].as_u64().unwrap() as usize;
                let rt = new_rt();
                let sh = Shared::new(&a);
                let (aref, jh): (ActorRef<S>, _) = {
                    let _g = rt.enter();
                    rsactor::spawn_with_mailbox_capacity::<S>(sh.clone(), cap)
                };
                let raw = aref.identity().id;
                let base = *self.id_base.get_or_insert(raw - 1);
                register_id(raw, &a);
                SAMPLERS
                    .lock()
                    .unwrap()
                    .as_mut()
                    .unwrap()
                    .insert(a.clone(), ActorRef::downgrade(&aref));
                let h = self.next_h;
                self.next_h += 1;
                with_handles(|hs| hs.insert(h, H::S(Arc::new(aref))));
                self.actors.insert(a.clone(), ActorSlot { rt, sh, jh: Some(jh), rt_now: NOW.load(Ordering::SeqCst), raw_id: raw });
                self.order.push(a.clone());
                emit(json!({"e": "Spawn", "a": a, "cap": cap, "id": raw.wrapping_sub(base), "h": h}));
            }
            "start" => {
                let cl = cmd["cl"].as_str().unwrap().to_string();
                let kind = cmd["kind"].as_str().unwrap();
                let h = cmd["h"].as_u64().unwrap();
                let d = cmd["d"].as_u64().unwrap_or(0);
                if self.clients.contains_key(&cl) {
                    self.inappl("start: client busy");
                } else {
                    let made = {
                        let _g = self.client_rt.enter();
                        Instr::new(&cl, kind, h, d)
                    };
                    match made {
                        Some(i) => {
                            self.clients.insert(cl.clone(), ClientOp { fut: Box::pin(i), flag: Arc::new(Flag(AtomicBool::new(false))) });
                            self.poll_client(&cl);
                        }
                        None => self.inappl("start: handle cannot do this"),
                    }
                }
            }
            "create" => {
                let cl = cmd["cl"].as_str().unwrap().to_string();
                let kind = cmd["kind"].as_str().unwrap();
                let h = cmd["h"].as_u64().unwrap();
                let d = cmd["d"].as_u64().unwrap_or(0);
                if self.clients.contains_key(&cl) {
                    self.inappl("create: client busy");
                } else {
                    let made = {
                        let _g = self.client_rt.enter();
                        Instr::new_lazy(&cl, kind, h, d)
                    };
                    match made {
                        Some(i) => {
                            self.clients.insert(cl.clone(), ClientOp { fut: Box::pin(i), flag: Arc::new(Flag(AtomicBool::new(false))) });
                        }
                        None => self.inappl("create: handle cannot do this"),
                    }
                }
            }
            "poll" => {
                let cl = cmd["cl"].as_str().unwrap().to_string();
                if self.clients.contains_key(&cl) {
                    self.poll_client(&cl);
                } else {
                    self.inappl("poll: no op");
                }
            }
            "burst" => {
                let a = cmd["a"].as_str().unwrap().to_string();
                let dir = cmd["dir"].as_str().unwrap_or("none");
                if let Some(slot) = self.actors.get(&a) {
                    if dir != "none" {
                        let parked = slot.sh.parked();
                        let fits = match dir {
                            "true" | "false" => parked == "Run",
                            "ok" => matches!(parked, "Start" | "Handler" | "Stop"),
                            "slow" | "slowpanic" | "veryslow" => parked == "Handler",
                            "err" => matches!(parked, "Start" | "Stop" | "Run"),
                            _ => parked != "",
                        } && exp_hook.map(|h| h == parked).unwrap_or(true);
                        if fits {
                            if matches!(parked, "Start" | "Handler" | "Stop") {
                                // a spurious wake-up first: while one of these hooks is pending the lifecycle awaits
                                // nothing else, so servicing the wake-ups that earlier commands left behind (a
                                // reference dropped, a kill sent, a mailbox slot filled) must change nothing
                                slot.rt.block_on(async {
                                    tokio::task::yield_now().await;
                                    tokio::task::yield_now().await;
                                });
                            }
                            slot.sh.give(Dir::Out(dir.to_string()));
                        } else {
                            self.inappl("burst: directive does not fit the parked hook");
                        }
                    }
                    self.run_actor(&a);
                } else {
                    self.inappl("burst: no actor");
                }
            }
            "nest" => {
                let a = cmd["a"].as_str().unwrap().to_string();
                if let Some(slot) = self.actors.get(&a) {
                    if !matches!(slot.sh.parked(), "Start" | "Handler" | "Stop" | "Run") {
                        self.inappl("nest: no hook parked");
                    } else {
                    slot.sh.give(Dir::Nest {
                        kind: cmd["kind"].as_str().unwrap().to_string(),
                        h: cmd["h"].as_u64().unwrap(),
                        d: cmd["d"].as_u64().unwrap_or(0),
                        then: cmd["then"].as_str().filter(|s| !s.is_empty()).map(|s| s.to_string()),
                    });
                    }
                    self.run_actor(&a);
                } else {
                    self.inappl("nest: no actor");
                }
            }
            "advance" => {
                let d = cmd["d"].as_u64().unwrap();
                self.client_rt.block_on(async move {
                    tokio::time::advance(Duration::from_millis(d)).await;
                });
                let now = NOW.fetch_add(d, Ordering::SeqCst) + d;
                emit(json!({"e": "Advance", "now": now}));
            }
            "arm" => {
                let a = cmd["a"].as_str().unwrap_or("").to_string();
                match self.actors.get(&a) {
                    Some(slot) => *slot.sh.run_now.lock().unwrap_or_else(|e| e.into_inner()) = cmd["out"].as_str().map(|s| s.to_string()),
                    None => self.inappl("arm: no actor"),
                }
            }
            "task" => {
                let m = cmd["m"].as_u64().unwrap_or(0);
                let out = cmd["out"].as_str().unwrap_or("ok").to_string();
                let tx = TASKS.lock().unwrap_or_else(|e| e.into_inner()).as_mut().and_then(|t| t.remove(&m));
                match tx {
                    Some((tx, ah)) => {
                        if out == "abort" {
                            // the task is cancelled from outside while it still waits (AbortHandle::abort)
                            ah.abort();
                        } else {
                            let _ = tx.send(out.clone());
                        }
                        self.task_rt.block_on(async {
                            tokio::task::yield_now().await;
                            tokio::task::yield_now().await;
                        });
                        emit(json!({"e": "TaskEnd", "m": m, "out": out}));
                    }
                    None => self.inappl("task: no such running task"),
                }
            }
            "clone" | "drop" | "down" | "up" | "alive" | "ident" | "erase" => self.handle_op(c, cmd),
            "quiesce" => {
                self.quiescent_event();
            }
            _ => self.inappl("unknown command"),
        }
        self.sample_all();
    }

    fn handle_op(&mut self, c: &str, cmd: &Value) {
        let h = cmd["h"].as_u64().unwrap();
        let h2 = self.next_h;
        let mut used_h2 = false;
        let mut bad = false;
        with_handles(|hs| {
            let aname = |hh: &H| -> String {
                match hh {
                    H::S(r) => name_of(r.identity().id),
                    H::W(w) => name_of(w.identity().id),
                    H::Tell(r) => name_of(r.as_control().identity().id),
                    H::Ask(r) => name_of(r.as_control().identity().id),
                    H::Ctl(r) => name_of(r.identity().id),
                    H::WTell(r) => name_of(r.as_weak_control().identity().id),
                    H::WAsk(r) => name_of(r.as_weak_control().identity().id),
                    H::WCtl(r) => name_of(r.identity().id),
                    H::Dead => "?".into(),
                }
            };
            let Some(hh) = hs.get(&h) else {
                bad = true;
                return;
            };
            let a = aname(hh);
            let strong = matches!(hh, H::S(_) | H::Tell(_) | H::Ask(_) | H::Ctl(_));
            let k = if strong { "s" } else { "w" };
            if matches!(hh, H::Dead) {
                bad = true;
                return;
            }
            match c {
                "clone" => {
                    let n = match hh {
                        H::S(r) => H::S(Arc::new((**r).clone())),
                        H::W(w) => H::W(Arc::new((**w).clone())),
                        H::Tell(r) => H::Tell(Arc::new(r.clone_boxed())),
                        H::Ask(r) => H::Ask(Arc::new(r.clone_boxed())),
                        H::Ctl(r) => H::Ctl(Arc::new(r.clone_boxed())),
                        H::WTell(r) => H::WTell(Arc::new(r.clone_boxed())),
                        H::WAsk(r) => H::WAsk(Arc::new(r.clone_boxed())),
                        H::WCtl(r) => H::WCtl(Arc::new(r.clone_boxed())),
                        H::Dead => unreachable!(),
                    };
                    hs.insert(h2, n);
                    used_h2 = true;
                    emit(json!({"e": "Clone", "h": h, "h2": h2, "a": a, "k": k}));
                }
                "drop" => {
                    // an Arc still held by an in-flight op would keep the reference alive
                    let busy = match hh {
                        H::S(r) => Arc::strong_count(r) > 1,
                        H::Tell(r) => Arc::strong_count(r) > 1,
                        H::Ask(r) => Arc::strong_count(r) > 1,
                        H::Ctl(r) => Arc::strong_count(r) > 1,
                        _ => false,
                    };
                    if busy {
                        bad = true;
                        return;
                    }
                    hs.insert(h, H::Dead);
                    emit(json!({"e": "DropH", "h": h, "a": a, "k": k}));
                }
                "down" => {
                    let n = match hh {
                        H::S(r) => H::W(Arc::new(ActorRef::downgrade(r))),
                        H::Tell(r) => H::WTell(Arc::new(r.downgrade())),
                        H::Ask(r) => H::WAsk(Arc::new(r.downgrade())),
                        H::Ctl(r) => H::WCtl(Arc::new(r.downgrade())),
                        _ => {
                            bad = true;
                            return;
                        }
                    };
                    hs.insert(h2, n);
                    used_h2 = true;
                    emit(json!({"e": "Down", "h": h, "h2": h2, "a": a}));
                }
                "up" => {
                    let n = match hh {
                        H::W(w) => w.upgrade().map(|r| H::S(Arc::new(r))),
                        H::WTell(w) => w.upgrade().map(|r| H::Tell(Arc::new(r))),
                        H::WAsk(w) => w.upgrade().map(|r| H::Ask(Arc::new(r))),
                        H::WCtl(w) => w.upgrade().map(|r| H::Ctl(Arc::new(r))),
                        _ => {
                            bad = true;
                            return;
                        }
                    };
                    match n {
                        Some(n) => {
                            hs.insert(h2, n);
                            used_h2 = true;
                            emit(json!({"e": "Up", "h": h, "h2": h2, "a": a, "ok": true}));
                        }
                        None => emit(json!({"e": "Up", "h": h, "h2": 0, "a": a, "ok": false})),
                    }
                }
                "alive" => {
                    let val = match hh {
                        H::S(r) => r.is_alive(),
                        H::W(w) => w.is_alive(),
                        H::Tell(r) => r.as_control().is_alive(),
                        H::Ask(r) => r.as_control().is_alive(),
                        H::Ctl(r) => r.is_alive(),
                        H::WTell(r) => r.as_weak_control().is_alive(),
                        H::WAsk(r) => r.as_weak_control().is_alive(),
                        H::WCtl(r) => r.is_alive(),
                        H::Dead => false,
                    };
                    emit(json!({"e": "Alive", "h": h, "a": a, "k": k, "val": val}));
                }
                "ident" => {
                    let id = match hh {
                        H::S(r) => r.identity().id,
                        H::W(w) => w.identity().id,
                        H::Tell(r) => r.as_control().identity().id,
                        H::Ask(r) => r.as_control().identity().id,
                        H::Ctl(r) => r.identity().id,
                        H::WTell(r) => r.as_weak_control().identity().id,
                        H::WAsk(r) => r.as_weak_control().identity().id,
                        H::WCtl(r) => r.identity().id,
                        H::Dead => 0,
                    };
                    let base = self.id_base.unwrap_or(0);
                    emit(json!({"e": "Ident", "h": h, "a": a, "id": id.wrapping_sub(base)}));
                }
                "erase" => {
                    let vk = cmd["vk"].as_str().unwrap_or("");
                    let by_val = cmd["by"].as_str() == Some("val");
                    let erased = self.erased;
                    if !matches!(hh, H::S(_) | H::W(_)) {
                        bad = true;
                        return;
                    }
                    if by_val {
                        if erased {
                            let old = hs.remove(&h).unwrap();
                            let n = match old {
                                H::S(arc) => match Arc::try_unwrap(arc) {
                                    Ok(r) => match vk {
                                        "tellh" => H::Tell(Arc::new(r.into())),
                                        "askh" => H::Ask(Arc::new(r.into())),
                                        _ => H::Ctl(Arc::new(r.into())),
                                    },
                                    Err(arc) => {
                                        bad = true;
                                        H::S(arc)
                                    }
                                },
                                H::W(arc) => match Arc::try_unwrap(arc) {
                                    Ok(w) => match vk {
                                        "tellh" => H::WTell(Arc::new(w.into())),
                                        "askh" => H::WAsk(Arc::new(w.into())),
                                        _ => H::WCtl(Arc::new(w.into())),
                                    },
                                    Err(arc) => {
                                        bad = true;
                                        H::W(arc)
                                    }
                                },
                                other => other,
                            };
                            hs.insert(h, n);
                        }
                        emit(json!({"e": "Erase", "h": h, "h2": 0, "a": a, "k": k, "vk": vk}));
                    } else {
                        let n = match (hh, erased) {
                            (H::S(r), false) => H::S(Arc::new((**r).clone())),
                            (H::W(w), false) => H::W(Arc::new((**w).clone())),
                            (H::S(r), true) => match vk {
                                "tellh" => H::Tell(Arc::new((&**r).into())),
                                "askh" => H::Ask(Arc::new((&**r).into())),
                                _ => H::Ctl(Arc::new((&**r).into())),
                            },
                            (H::W(w), true) => match vk {
                                "tellh" => H::WTell(Arc::new((&**w).into())),
                                "askh" => H::WAsk(Arc::new((&**w).into())),
                                _ => H::WCtl(Arc::new((&**w).into())),
                            },
                            _ => unreachable!(),
                        };
                        hs.insert(h2, n);
                        used_h2 = true;
                        emit(json!({"e": "Erase", "h": h, "h2": h2, "a": a, "k": k, "vk": vk}));
                    }
                }
                _ => bad = true,
            }
        });
        if used_h2 {
            self.next_h += 1;
        }
        if bad {
            self.inappl("handle op");
        }
    }

    fn quiescent_event(&self) {
        let pending: Vec<u64> = PENDING.lock().unwrap().iter().cloned().collect();
        let unjoined: Vec<&String> = self.order.iter().filter(|a| self.actors[*a].jh.is_some()).collect();
        #[cfg(feature = "deadlock-detection")]
        let wf: Vec<Value> = {
            let mut v: Vec<(String, String)> = rsactor::__verif_wait_for_edges()
                .into_iter()
                .map(|(x, y)| (name_of(x), name_of(y)))
                .filter(|(x, _)| !x.starts_with('?'))
                .collect();
            v.sort();
            v.into_iter().map(|(x, y)| json!([x, y])).collect()
        };
        #[cfg(not(feature = "deadlock-detection"))]
        let wf: Vec<Value> = vec![];
        emit(json!({"e": "Quiescent", "pending": pending, "unjoined": unjoined, "wf": wf,
                    "now": NOW.load(Ordering::SeqCst)}));
        #[cfg(feature = "metrics")]
        with_handles(|hs| {
            let mut ids: Vec<u64> = hs.keys().cloned().collect();
            ids.sort();
            for h in ids {
                let r: Option<ActorRef<S>> = match &hs[&h] {
                    H::S(r) => Some((**r).clone()),
                    H::W(w) => w.upgrade(),
                    _ => None,
                };
                if let Some(r) = r {
                    let snap = r.metrics();
                    emit(json!({"e": "Metrics", "a": name_of(r.identity().id), "h": h,
                                "cnt": r.message_count(), "avg": r.avg_processing_time().as_micros() as u64,
                                "max": r.max_processing_time().as_micros() as u64, "err": r.error_count(),
                                "scnt": snap.message_count, "savg": snap.avg_processing_time.as_micros() as u64,
                                "smax": snap.max_processing_time.as_micros() as u64}));
                }
            }
        });
    }

    /// After the scheduled commands: open every gate with its default outcome, poll and run
    /// everything to a fixpoint, let every deadline pass, then report what is still pending.
    pub fn tail(&mut self) {
        self.settle();
        emit(json!({"e": "Cmd", "cmd": {"c": "quiesce", "tail": true}}));
        self.quiescent_event();
        self.sample_all();
    }

    fn running_tasks(&self) -> Vec<u64> {
        let mut v: Vec<u64> = TASKS.lock().unwrap_or_else(|e| e.into_inner()).as_ref().map(|t| t.keys().cloned().collect()).unwrap_or_default();
        v.sort();
        v
    }

    fn busy(&self) -> bool {
        !PENDING.lock().unwrap().is_empty()
            || !self.running_tasks().is_empty()
            || self.actors.values().any(|s| s.jh.is_some() && matches!(s.sh.parked(), "Start" | "Handler" | "Stop"))
    }

    fn settle(&mut self) {
        // a poll can make progress without logging anything (a granted sender pushing its message), so one quiet round
        // is not a fixpoint: stop after two
        let mut quiet_rounds = 0;
        for _round in 0..200 {
            let before = self.progress_marker();
            let names: Vec<String> = self.order.clone();
            for a in &names {
                if self.actors[a].jh.is_none() {
                    continue;
                }
                let dir = match self.actors[a].sh.parked() {
                    "Start" | "Handler" | "Stop" => "ok",
                    "Run" => "false",
                    _ => "none",
                };
                self.exec(&json!({"c": "burst", "a": a, "dir": dir, "tail": true}));
            }
            for m in self.running_tasks() {
                self.exec(&json!({"c": "task", "m": m, "out": "ok", "tail": true}));
            }
            let cls: Vec<String> = self.clients.keys().cloned().collect();
            for cl in &cls {
                self.exec(&json!({"c": "poll", "cl": cl, "tail": true}));
            }
            if self.progress_marker() != before {
                quiet_rounds = 0;
                continue;
            }
            quiet_rounds += 1;
            if quiet_rounds < 2 {
                continue;
            }
            // nothing moved: if a deadline lies ahead, go there
            if let Some(d) = self.next_deadline() {
                self.exec(&json!({"c": "advance", "d": d, "tail": true}));
                continue;
            }
            break;
        }
    }

    fn progress_marker(&self) -> (usize, usize, usize) {
        // number of non-Cmd/Sample events so far
        let n = crate::log::LOG
            .lock()
            .unwrap()
            .iter()
            .filter(|e| !matches!(e["e"].as_str(), Some("Cmd") | Some("Sample") | Some("Advance")))
            .count();
        (n, self.clients.len(), self.actors.values().filter(|s| s.jh.is_some()).count())
    }

    /// distance to the next deadline of a pending timed op that lies in the future
    fn next_deadline(&self) -> Option<u64> {
        let now = NOW.load(Ordering::SeqCst);
        DEADLINES.lock().unwrap().values().filter(|d| **d > now).min().map(|d| d - now)
    }
}

/// Execute one schedule: returns (events, drift records)
pub fn run_schedule(run: u64, steps: &[Value], erased: bool, feats: &Value) -> (Vec<Value>, Vec<Value>, u64) {
    let _ = crate::log::take_all();
    emit(json!({"e": "Reset", "run": run, "feats": feats, "strict": true}));
    let mut w = World::new(erased);
    let mut drifts = Vec::new();
    let mut quiesced = false;
    for (i, st) in steps.iter().enumerate() {
        let cmd = &st["cmd"];
        if cmd["c"] == "quiesce" {
            quiesced = true;
        }
        let start = log_len();
        let exp_hook: Option<&str> = st.get("evs").and_then(|e| e.as_array()).and_then(|evs| {
            evs.iter().find_map(|e| match e["e"].as_str() {
                Some("HExit") => match e["hook"].as_str() {
                    Some("start") => Some("Start"),
                    Some("handler") => Some("Handler"),
                    Some("stop") => Some("Stop"),
                    _ => None,
                },
                Some("RunPoll") | Some("RunEnd") | Some("RunDrop") => Some("Run"),
                _ => None,
            })
        });
        w.exec_expect(cmd, exp_hook);
        let got: Vec<Value> = take_from(start + 1); // skip the Cmd marker
        if let Some(exp) = st.get("evs").and_then(|e| e.as_array()) {
            if drifts.is_empty() && !same_events(exp, &got) {
                drifts.push(json!({"run": run, "step": i, "cmd": cmd, "expected": exp, "got": got}));
            }
        }
    }
    if !quiesced || w.busy() {
        // the model believes nothing can move any more (or the schedule was cut): let the
        // implementation run to its own quiescence and report again
        w.tail();
    }
    let inappl = w.inapplicable;
    // the run's trace ends here; whatever is logged while the world is torn down (futures
    // dropped with their runtimes) is an artefact of the harness, not behaviour
    let events = crate::log::take_all();
    with_handles(|h| h.clear());
    *SAMPLERS.lock().unwrap() = None;
    *TASKS.lock().unwrap_or_else(|e| e.into_inner()) = None;
    *TASK_RT.lock().unwrap_or_else(|e| e.into_inner()) = None;
    drop(w);
    let _ = crate::log::take_all();
    (events, drifts, inappl)
}

fn canon(v: &Value) -> Value {
    match v {
        Value::Object(m) => {
            let mut o = serde_json::Map::new();
            for (k, x) in m {
                if k == "closed" || k == "wf" {
                    continue; // not predicted by every model configuration
                }
                o.insert(k.clone(), canon(x));
            }
            Value::Object(o)
        }
        Value::Array(a) => Value::Array(a.iter().map(canon).collect()),
        x => x.clone(),
    }
}

fn same_events(exp: &[Value], got_all: &[Value]) -> bool {
    // metrics read-outs at quiescence are judged by the monitor only; the model does not predict them
    let got: Vec<&Value> = got_all.iter().filter(|e| e["e"] != "Metrics").collect();
    if exp.len() != got.len() {
        return false;
    }
    exp.iter().zip(got).all(|(e, g)| {
        let mut e = canon(e);
        let mut g = canon(g);
        // the dead-letter counter is only observable with the test-utils feature
        for k in ["dlc", "mcnt"] {
            if g.get(k).and_then(|x| x.as_i64()) == Some(-1) && cfg_wild(k) {
                e.as_object_mut().map(|m| m.remove(k));
                g.as_object_mut().map(|m| m.remove(k));
            }
        }
        e == g
    })
}

/// is a -1 in this field "feature not compiled in" (wildcard) rather than an observation?
fn cfg_wild(k: &str) -> bool {
    match k {
        "dlc" => !cfg!(feature = "test-utils"),
        "mcnt" => !cfg!(feature = "metrics"),
        _ => false,
    }
}
