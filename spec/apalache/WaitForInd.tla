----------------------------- MODULE WaitForInd -----------------------------
(***************************************************************************)
(* The wait-for graph of the deadlock detection (lib.rs wait_for_graph,     *)
(* actor_ref.rs ask) as a stand-alone typed module, for an INDUCTIVE proof  *)
(* with Apalache -- i.e. for histories of any length -- of the core of C14  *)
(* and C15 on 4 actors (DetectExact: 17 s with 4 actors, > 20 min with 5):  *)
(*                                                                         *)
(*   Acyclic     no cycle of wait-for edges is ever in place (the ask that   *)
(*               would close one is refused), and                            *)
(*   DetectExact an ask is refused exactly when inserting its edge would     *)
(*               create a cycle (no false positive, no false negative),      *)
(*               given that the graph is acyclic before.                     *)
(*                                                                         *)
(* An actor awaits at most one ask at a time (asks are awaited directly in   *)
(* a hook), so the graph is a partial function  wf : Actor -> Actor  ("" =    *)
(* no edge).  has_path walks at most |graph| edges from the callee.           *)
(*                                                                         *)
(*   base   Init => IndInv                  (--length=0)                     *)
(*   step   IndInv /\ Next => IndInv'       (--init=IndInit --length=1)      *)
(*   use    IndInv => DetectExact           (--init=IndInit --length=0)      *)
(***************************************************************************)
EXTENDS Integers, FiniteSets, Apalache

CONSTANTS
  \* @type: Set(Str);
  Actors

VARIABLES
  \* @type: Str -> Str;
  wf

ConstInit == Actors = {"a1", "a2", "a3", "a4"}

Nodes == Actors \union {""}

\* @type: (Str -> Str, Str) => Str;
N1(g, a) == IF a = "" THEN "" ELSE g[a]
\* @type: (Str -> Str, Str) => Str;
N2(g, a) == N1(g, N1(g, a))
\* @type: (Str -> Str, Str) => Str;
N3(g, a) == N1(g, N2(g, a))
\* @type: (Str -> Str, Str) => Str;
N4(g, a) == N1(g, N3(g, a))

\* has_path(graph, from, to): some walk of 1..4 edges leads from `from` to `to`
\* @type: (Str -> Str, Str, Str) => Bool;
PathTo(g, from, to) ==
  \/ N1(g, from) = to \/ N2(g, from) = to \/ N3(g, from) = to \/ N4(g, from) = to

\* @type: (Str -> Str) => Bool;
AcyclicOf(g) == \A a \in Actors : ~PathTo(g, a, a)

Init == wf = [a \in Actors |-> ""]

\* x's hook issues an ask to y: refused (panic, no edge) if it would close a cycle, else the edge x -> y is recorded
Ask(x, y) ==
  /\ wf[x] = ""
  /\ IF x = y \/ PathTo(wf, y, x)
       THEN UNCHANGED wf
       ELSE wf' = [wf EXCEPT ![x] = y]

\* x's ask is over (answered, timed out, cancelled, callee ended): its edge is removed
Done(x) == wf[x] # "" /\ wf' = [wf EXCEPT ![x] = ""]

Next == \E x \in Actors : Done(x) \/ (\E y \in Actors : Ask(x, y))

TypeOK == wf \in [Actors -> Nodes]

IndInv == TypeOK /\ AcyclicOf(wf)

IndInit == wf = Gen(4) /\ IndInv

Acyclic == AcyclicOf(wf)

\* C14 (complete) and C15 (sound) for the decision itself
DetectExact ==
  \A x \in Actors, y \in Actors :
     wf[x] = "" => ((x = y \/ PathTo(wf, y, x)) <=> ~AcyclicOf([wf EXCEPT ![x] = y]))
=============================================================================
