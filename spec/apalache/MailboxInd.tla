----------------------------- MODULE MailboxInd -----------------------------
(***************************************************************************)
(* The mailbox semaphore of RsActor.tla (permits, queue, waiters, granted) *)
(* as a stand-alone typed module, for an INDUCTIVE proof with Apalache that *)
(* the capacity bound of C09 holds for EVERY capacity (symbolic integer)    *)
(* and every interleaving of sends, takes, grants and cancellations:        *)
(*                                                                         *)
(*   qlen + |granted| + permits = Cap,  0 <= permits,  0 <= qlen <= Cap,    *)
(*   somebody waits  =>  no free permit                                     *)
(*                                                                         *)
(* Checked as  Init => IndInv  (length 0)  and  IndInv /\ Next => IndInv'   *)
(* (length 1 from IndInit).  Senders are a fixed finite set of 5 ids; the    *)
(* capacity is unconstrained apart from Cap >= 1.                            *)
(***************************************************************************)
EXTENDS Integers, FiniteSets, Apalache

CONSTANTS
  \* @type: Int;
  Cap,
  \* @type: Set(Str);
  Senders

VARIABLES
  \* @type: Int;
  permits,
  \* @type: Int;
  qlen,
  \* @type: Set(Str);
  waiting,
  \* @type: Set(Str);
  granted,
  \* @type: Bool;
  closed

ConstInit == Cap = Gen(1) /\ Cap >= 1 /\ Senders = {"s1", "s2", "s3", "s4", "s5"}

Init == permits = Cap /\ qlen = 0 /\ waiting = {} /\ granted = {} /\ closed = FALSE

\* first poll of a send: take a free permit and push, or join the waiters
SendPoll(s) ==
  /\ ~closed /\ s \notin waiting /\ s \notin granted
  /\ IF permits > 0 /\ waiting = {}
       THEN permits' = permits - 1 /\ qlen' = qlen + 1 /\ UNCHANGED <<waiting, granted>>
       ELSE waiting' = waiting \union {s} /\ UNCHANGED <<permits, qlen, granted>>
  /\ UNCHANGED closed

\* the loop takes a message: the released permit goes to a waiter if there is one, else to the pool
Take ==
  /\ ~closed /\ qlen > 0
  /\ qlen' = qlen - 1
  /\ IF waiting # {}
       THEN \E w \in waiting : waiting' = waiting \ {w} /\ granted' = granted \union {w} /\ UNCHANGED permits
       ELSE permits' = permits + 1 /\ UNCHANGED <<waiting, granted>>
  /\ UNCHANGED closed

\* a granted waiter is polled: it pushes
PushGranted(s) ==
  /\ ~closed /\ s \in granted
  /\ granted' = granted \ {s} /\ qlen' = qlen + 1
  /\ UNCHANGED <<permits, waiting, closed>>

\* a pending send is dropped (timeout, cancellation): a waiter leaves, a granted permit is passed on
Cancel(s) ==
  /\ ~closed
  /\ \/ /\ s \in waiting /\ waiting' = waiting \ {s} /\ UNCHANGED <<permits, qlen, granted>>
     \/ /\ s \in granted
        /\ IF waiting # {}
             THEN \E w \in waiting : waiting' = waiting \ {w} /\ granted' = (granted \ {s}) \union {w} /\ UNCHANGED permits
             ELSE granted' = granted \ {s} /\ permits' = permits + 1 /\ UNCHANGED waiting
        /\ UNCHANGED qlen
  /\ UNCHANGED closed

Close == ~closed /\ closed' = TRUE /\ UNCHANGED <<permits, qlen, waiting, granted>>

Next == (\E s \in Senders : SendPoll(s) \/ PushGranted(s) \/ Cancel(s)) \/ Take \/ Close

IndInv ==
  /\ permits >= 0 /\ qlen >= 0
  /\ waiting \subseteq Senders /\ granted \subseteq Senders /\ waiting \intersect granted = {}
  /\ qlen + Cardinality(granted) + permits = Cap
  /\ (waiting # {} => permits = 0)

\* "start anywhere inside the invariant": arbitrary values (Gen), constrained by IndInv
IndInit ==
  /\ permits = Gen(1) /\ qlen = Gen(1) /\ waiting = Gen(5) /\ granted = Gen(5) /\ closed = Gen(1)
  /\ IndInv

\* what C09 states: the number of accepted-but-not-yet-taken messages never exceeds the capacity,
\* and nobody waits while a slot is free
CapacityBound == qlen <= Cap /\ (waiting # {} => permits = 0)
=============================================================================
