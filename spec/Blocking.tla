------------------------------ MODULE Blocking ------------------------------
(***************************************************************************)
(* C17 (and the blocking half of C16): the blocking API, step by step.      *)
(*                                                                         *)
(* RsActor.tla treats a blocking call as "the async call seen from a        *)
(* thread".  That is right for the channel operations, but it says nothing  *)
(* about WHO makes time pass and WHO runs the actor while the caller's       *)
(* thread is blocked.  This module models exactly that (actor_ref.rs        *)
(* 511-602, 646-779, 800-860; handler.rs forwarders):                       *)
(*                                                                         *)
(*   untimed  : mpsc blocking_send, then oneshot blocking_recv on the        *)
(*              caller's own thread (tokio refuses both on a thread that is  *)
(*              driving a runtime: panic);                                   *)
(*   timed    : a helper thread with a PRIVATE current-thread runtime runs   *)
(*              timeout(T, tell/ask) and hands the result back over a std    *)
(*              channel on which the caller blocks.                          *)
(*                                                                         *)
(* A runtime makes progress (runs its tasks, fires its timers) only while    *)
(* one of its driver threads is free.  A caller that is an async task of a   *)
(* current-thread runtime (or of a multi-thread runtime with one worker)     *)
(* takes the only driver away for as long as it blocks: the actor, if it     *)
(* lives there, stands still, and so would a timer registered there.         *)
(*                                                                         *)
(* Time is urgent: Tick is enabled only when nothing else is.  So "returns   *)
(* by the deadline" is the invariant  returned => retAt <= T  plus the        *)
(* liveness property that a timed call does return.                          *)
(*                                                                         *)
(* Deviation switches (TRUE / "private" for the code as it is):              *)
(*   HelperRt      "ambient": the helper borrows the caller's runtime handle *)
(*   KeepsTimeout  FALSE: the type-erased forwarder drops the timeout        *)
(*   OneDeadline   FALSE: send and reply get a timeout(T) each (the second   *)
(*                 starts when the message is accepted)                      *)
(*                                                                         *)
(* Every terminal state is printed as a CASE line: the configuration and the *)
(* outcome.  tools/stages.py replays each case on real threads (vh          *)
(* blockcases) and compares the outcome class and the return time.           *)
(***************************************************************************)
EXTENDS Naturals, TLC, Json

CONSTANTS HelperRt,        \* "private" | "ambient"
          KeepsTimeout,    \* BOOLEAN
          OneDeadline,     \* BOOLEAN: FALSE = the helper starts a fresh timeout(T, ..) for the reply once the message is accepted
          T,               \* the timeout (ticks), >= 1
          MaxNow,          \* the clock stops here
          Emit             \* BOOLEAN: print CASE lines

Ctxs  == {"thread", "spawn_blocking", "mt_worker", "mt1_worker", "ct_task"}
\* thread          a plain std thread, no runtime
\* spawn_blocking  a blocking-pool thread of a multi-thread runtime
\* mt_worker       an async task of a multi-thread runtime with several workers
\* mt1_worker      an async task of a multi-thread runtime with ONE worker
\* ct_task         an async task of a current-thread runtime
AsyncCtx == {"mt_worker", "mt1_worker", "ct_task"}
Homes == {"other", "caller_rt"}     \* where the actor's task runs
Modes == {"responsive", "frozen", "full", "dead", "thaw"}
\* frozen: inside a handler that never finishes, one free slot.  full: frozen and no free slot.
\* thaw: no free slot at first; at time Th < T the actor (if it runs) finishes the handler it is in and takes the queued
\*       message, whose handler never finishes: a slot becomes free before the deadline, a reply never comes.  A timed call
\*       is accepted at Th and must still be back at T (one deadline for send and reply, not one each).
Th == 1
Apis  == {"tell", "ask"}
Forms == {"timed", "untimed", "alias"}    \* alias = deprecated tell_blocking / ask_blocking given Some(T): ignored
Vias  == {"direct", "erased"}

Cfgs == {c \in [ctx : Ctxs, home : Homes, mode : Modes, api : Apis, form : Forms, via : Vias] :
            /\ (c.ctx = "thread" => c.home = "other")
            /\ (c.form = "alias" => c.via = "direct")}      \* the wrappers have no deprecated aliases

VARIABLES cfg, now,
  cpc,      \* caller: "call" | "bsend" | "brecv" | "wait" | "returned"
  hpc,      \* helper: "none" | "start" | "send" | "reply" | "done" | "gone"
  hres,     \* helper's result
  res, retAt,
  free,     \* free mailbox slots (0/1)
  queued,   \* our message is in the mailbox
  handled,  \* our message has been handled
  replied,  \* "no" | "yes" | "dropped"
  alive,    \* actor alive
  dl,       \* the helper's current deadline
  thawed    \* mode "thaw": the slot has been freed

vars == <<cfg, now, cpc, hpc, hres, res, retAt, free, queued, handled, replied, alive, thawed, dl>>

EffTimed == cfg.form = "timed" /\ (cfg.via = "direct" \/ KeepsTimeout)

Blocked == cpc \in {"bsend", "brecv", "wait"}

\* is the caller's runtime making progress?
CallerRtDriven ==
  CASE cfg.ctx = "thread"         -> FALSE           \* there is none
    [] cfg.ctx = "spawn_blocking" -> TRUE            \* the workers are not involved
    [] cfg.ctx = "mt_worker"      -> TRUE            \* another worker takes over
    [] cfg.ctx = "mt1_worker"     -> ~Blocked
    [] cfg.ctx = "ct_task"        -> ~Blocked

ActorRuns == alive /\ (cfg.home = "other" \/ CallerRtDriven)

\* the helper's timer: its own runtime is driven by the helper thread itself (parked in block_on);
\* a borrowed handle leaves the timer with the caller's runtime
TimerDriven == HelperRt = "private" \/ cfg.ctx = "thread" \/ CallerRtDriven

Init ==
  /\ cfg \in Cfgs
  /\ now = 0 /\ cpc = "call" /\ hpc = "none" /\ hres = "" /\ res = "" /\ retAt = 0
  /\ free = (IF cfg.mode \in {"full", "thaw"} THEN 0 ELSE 1) /\ thawed = FALSE /\ dl = T
  /\ queued = FALSE /\ handled = FALSE /\ replied = "no"
  /\ alive = (cfg.mode # "dead")

Return(r) == cpc' = "returned" /\ res' = r /\ retAt' = now

\* ---- the caller's thread
Call ==
  /\ cpc = "call"
  /\ IF EffTimed
       THEN /\ cpc' = "wait" /\ hpc' = "start" /\ UNCHANGED <<res, retAt>>
       ELSE /\ UNCHANGED hpc
            /\ IF cfg.ctx \in AsyncCtx
                 THEN Return("panic")             \* tokio: cannot block the current thread from within a runtime
                 ELSE cpc' = "bsend" /\ UNCHANGED <<res, retAt>>
  /\ UNCHANGED <<cfg, thawed, dl, now, hres, free, queued, handled, replied, alive>>

BSend ==
  /\ cpc = "bsend"
  /\ \/ /\ ~alive /\ Return("send") /\ UNCHANGED <<free, queued>>
     \/ /\ alive /\ free > 0 /\ free' = free - 1 /\ queued' = TRUE
        /\ IF cfg.api = "tell" THEN Return("ok") ELSE cpc' = "brecv" /\ UNCHANGED <<res, retAt>>
  /\ UNCHANGED <<cfg, thawed, dl, now, hpc, hres, handled, replied, alive>>

BRecv ==
  /\ cpc = "brecv" /\ replied # "no"
  /\ Return(IF replied = "yes" THEN "ok" ELSE "recv")
  /\ UNCHANGED <<cfg, thawed, dl, now, hpc, hres, free, queued, handled, replied, alive>>

Wait ==
  /\ cpc = "wait" /\ hpc = "done"
  /\ Return(hres) /\ hpc' = "gone"
  /\ UNCHANGED <<cfg, thawed, dl, now, hres, free, queued, handled, replied, alive>>

\* ---- the helper thread: runs timeout(T, op) with block_on on its own thread
HStart ==
  /\ hpc = "start" /\ hpc' = "send"
  /\ UNCHANGED <<cfg, thawed, dl, now, cpc, hres, res, retAt, free, queued, handled, replied, alive>>

HSend ==
  /\ hpc = "send"
  /\ \/ /\ ~alive /\ hpc' = "done" /\ hres' = "send" /\ UNCHANGED <<free, queued, dl>>
     \/ /\ alive /\ free > 0 /\ free' = free - 1 /\ queued' = TRUE
        /\ IF cfg.api = "tell" THEN hpc' = "done" /\ hres' = "ok" ELSE hpc' = "reply" /\ UNCHANGED hres
        /\ dl' = (IF OneDeadline THEN dl ELSE now + T)
  /\ UNCHANGED <<cfg, thawed, now, cpc, res, retAt, handled, replied, alive>>

HReply ==
  /\ hpc = "reply" /\ replied # "no"
  /\ hpc' = "done" /\ hres' = (IF replied = "yes" THEN "ok" ELSE "recv")
  /\ UNCHANGED <<cfg, thawed, dl, now, cpc, res, retAt, free, queued, handled, replied, alive>>

HTimeout ==
  /\ hpc \in {"send", "reply"} /\ now >= dl /\ TimerDriven
  /\ hpc' = "done" /\ hres' = "timeout"
  /\ UNCHANGED <<cfg, thawed, dl, now, cpc, res, retAt, free, queued, handled, replied, alive>>

\* ---- the actor
Take ==
  /\ ActorRuns /\ cfg.mode = "responsive" /\ queued /\ ~handled
  /\ handled' = TRUE /\ free' = free + 1
  /\ replied' = (IF cfg.api = "ask" THEN "yes" ELSE replied)
  /\ UNCHANGED <<cfg, thawed, dl, now, cpc, hpc, hres, res, retAt, queued, alive>>

Thaw ==
  /\ ActorRuns /\ cfg.mode = "thaw" /\ ~thawed /\ now >= Th
  /\ thawed' = TRUE /\ free' = free + 1
  /\ UNCHANGED <<cfg, dl, now, cpc, hpc, hres, res, retAt, queued, handled, replied, alive>>

Tick ==
  /\ now < MaxNow
  /\ ~ENABLED (Call \/ BSend \/ BRecv \/ Wait \/ HStart \/ HSend \/ HReply \/ HTimeout \/ Take \/ Thaw)
  /\ now' = now + 1
  /\ UNCHANGED <<cfg, thawed, dl, cpc, hpc, hres, res, retAt, free, queued, handled, replied, alive>>

Next == Call \/ BSend \/ BRecv \/ Wait \/ HStart \/ HSend \/ HReply \/ HTimeout \/ Take \/ Thaw \/ Tick

Spec == Init /\ [][Next]_vars /\ WF_vars(Next)

-----------------------------------------------------------------------------
Requested == cfg.form = "timed"      \* the user passed Some(T) to a non-deprecated entry point

\* C17: given a timeout the call returns by the deadline, whatever the actor does and wherever the caller runs ...
ByDeadline == cpc = "returned" /\ Requested => retAt <= T
\* ... it does return (checked at the end of time: the only step left is stuttering) ...
ReturnsInv == now = MaxNow /\ Requested /\ ~ENABLED (Call \/ BSend \/ BRecv \/ Wait \/ HStart \/ HSend \/ HReply \/ HTimeout \/ Take \/ Thaw)
                => cpc = "returned"
Returns == Requested => <>(cpc = "returned")
\* ... and never panics, async context or not
NoPanic == Requested => res # "panic"
\* the channel rules: a tell that timed out or failed was not delivered; Ok means queued; an ask's Ok means handled
Delivery == cpc = "returned" =>
              /\ (res = "ok" => queued)
              /\ (res = "ok" /\ cfg.api = "ask" => handled)
              /\ (res = "send" => ~queued)
              /\ (res = "timeout" /\ cfg.api = "tell" => ~queued)
\* C16: the wrapper changes nothing -- same outcome and same return time as the direct call in the same configuration
\* (evaluated by the case comparison: see CaseOut)

Terminal == ~ENABLED (Call \/ BSend \/ BRecv \/ Wait \/ HStart \/ HSend \/ HReply \/ HTimeout \/ Take \/ Thaw) /\ now = MaxNow

CaseOut == [cfg |-> cfg, res |-> (IF cpc = "returned" THEN res ELSE "blocked"), at |-> retAt, queued |-> queued]
EmitCases == Terminal /\ Emit => PrintT(<<"CASE", ToJson(CaseOut)>>)
=============================================================================
