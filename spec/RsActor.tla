------------------------------ MODULE RsActor ------------------------------
(***************************************************************************)
(* Implementation-shaped model of hiking90/rsactor (src/actor.rs,          *)
(* src/actor_ref.rs, src/lib.rs) on top of tokio's bounded mpsc, batch     *)
(* semaphore, oneshot and paused clock.                                    *)
(*                                                                         *)
(* Style: the whole system state is ONE record `st`; every command of the  *)
(* verification driver (client poll, actor burst, handle operation, clock  *)
(* advance) is a pure operator  Do(st, cmd)  returning the successor state *)
(* and the sequence of observable events of that step.  The same operator  *)
(* is used                                                                 *)
(*   - by TLC to explore all behaviours (MC*.tla),                         *)
(*   - by TLC to generate schedules that are replayed into the real code   *)
(*     (Gen*.tla: history variable `sched` = command + predicted events),  *)
(*   - by TLC to check that a trace recorded from the real code is a       *)
(*     behaviour of this specification (TraceConf.tla).                    *)
(*                                                                         *)
(* Grain ("Coop" mode): one step = everything the code does inside one     *)
(* task poll on a current_thread runtime.  An actor burst runs from the    *)
(* gate its hook is parked on to the next gate / idle select / exit.       *)
(***************************************************************************)
EXTENDS Naturals, Integers, Sequences, FiniteSets, TLC, SequencesExt

CONSTANTS
  ActorSeq,            \* sequence of actor names (strings), e.g. <<"a1","a2">>; spawned in this order
  ClientSeq,           \* sequence of client names (strings), e.g. <<"c1","c2">>
  CapChoices,          \* capacities a spawn may choose
  MaxMsg,              \* message ids 1..MaxMsg
  MaxOps,              \* op ids 1..MaxOps (client ops + nested ops of hooks)
  MaxH,                \* handle ids 1..MaxH
  MaxTime,             \* virtual clock bound
  Timeouts,            \* set of timeout durations (>= 1)
  OpKinds,             \* subset of {"tell","ask","tellT","askT","askJ","stop","kill"}  (askJ = ask_join)
  StartOuts,           \* subset of {"ok","err","panic"}
  HandlerOuts,         \* subset of {"ok","panic"}
  RunOuts,             \* subset of {"true","false","err","panic"}
  StopOuts,            \* subset of {"ok","err","panic"}
  NestKinds,           \* subset of {"ask","askT","askJ","tell","kill"}: ops a hook may perform
  NestHooks,           \* subset of {"Start","Handler","Stop"}: hooks that may do them
  HandleOps,           \* subset of {"clone","drop","down","up","alive","ident","erase"}
  EraseKinds,          \* subset of {"tellh","askh","ctl"}: type-erased wrappers a handle may be converted to
  DeadlockDetection,   \* BOOLEAN: feature deadlock-detection
  EdgeClearedOnReply,  \* BOOLEAN: wait-for edge removed when the reply is sent (F1 fixed)
  TokenedEdges,        \* BOOLEAN: a guard removes only the edge of ITS OWN ask (per-ask token). FALSE = deviation: the
                       \* callee-side guard of an abandoned (timed-out / cancelled) ask removes whatever edge its asker has now
  ScopedCleanupStop,   \* BOOLEAN: the on_stop that runs after an on_run error is inside the actor's task-local scope like every
                       \* other hook (FALSE = deviation: asks issued there are invisible to the deadlock detection)
  AskerGuard,          \* BOOLEAN: the asking future removes its own wait-for edge when it completes or is dropped
                       \* (FALSE = a deviation used to let TLC find distinguishing schedules: only the callee side clears)
  KilledFromSignal,    \* BOOLEAN: killed is set because a Terminate signal was received (FALSE = deviation: derived
                       \* from whether strong references still exist at that moment)
  StopWaits,           \* BOOLEAN: stop() waits for a mailbox slot (FALSE = deviation: returns at once, marker sent in the background)
  TimeoutWithdraws,    \* BOOLEAN: a timed-out send is withdrawn (FALSE = deviation: it stays queued for a slot and is delivered later)
  TermFirst,           \* BOOLEAN: the biased select polls the terminate channel before the mailbox (FALSE = deviation)
  EnvelopeHoldsRef,    \* BOOLEAN: queued envelopes keep the actor referenced (FALSE = deviation)
  MetricsOn,           \* BOOLEAN: feature metrics (extra ActorRef clone during a handler)
  MaxRun,              \* bound on on_run invocations per actor (keeps the model finite)
  NestThen,            \* BOOLEAN: hooks may finish in the same poll in which a nested operation completed
  AvoidCycles,         \* BOOLEAN: hooks never issue an ask that would close a cycle (cycle-free programs)
  MaxProbes,           \* bound on pure observations (is_alive / identity), which do not change state
  LazyStart,           \* BOOLEAN: clients may create the future of an operation and poll it for the first time later (command
                       \* `create`): nothing, not even the timer of a *_with_timeout call, may start before the first poll
  ArmRun               \* BOOLEAN: on_run invocations may be scripted to return at their very first poll (like the default on_run)

Actors  == {ActorSeq[i] : i \in DOMAIN ActorSeq}
Clients == {ClientSeq[i] : i \in DOMAIN ClientSeq}
Owners == Actors \cup Clients
ActorIdx(a) == CHOOSE i \in DOMAIN ActorSeq : ActorSeq[i] = a
ClientIdx(c) == CHOOSE i \in DOMAIN ClientSeq : ClientSeq[i] = c
OpIds == 1..MaxOps
HIds  == 1..MaxH

SendKinds  == {"tell","ask","tellT","askT","askJ","stop"}
AskKinds   == {"ask","askT","askJ"}
TimedKinds == {"tellT","askT"}
MsgKinds   == {"tell","ask","tellT","askT","askJ"}
\* askJ = ActorRef::ask_join: the handler spawns a task and replies with its JoinHandle; the asker then awaits the task
TaskOuts   == {"ok","panic","abort"}   \* abort = the JoinHandle's task is cancelled (AbortHandle::abort) before it finishes

NoRes == [k |-> "none", phase |-> "", killed |-> FALSE, has |-> FALSE, err |-> "", msg |-> ""]

NoActor == [sp |-> FALSE, pc |-> "None", cap |-> 0, permits |-> 0, mbox |-> <<>>,
            waiters |-> <<>>, granted |-> {}, closed |-> FALSE, term |-> FALSE,
            killed |-> FALSE, idle |-> TRUE, inst |-> 0, cur |-> 0, own |-> FALSE,
            marker |-> FALSE, runErr |-> FALSE, hop |-> 0, nh |-> 0, mcount |-> 0, jl |-> <<>>,
            res |-> NoRes, id |-> 0,
            runNow |-> ""]      \* outcome with which the next on_run invocation returns at its first poll ("" = it parks)

NoOpRec == [own |-> "", kind |-> "", h |-> 0, a |-> "", m |-> 0, dl |-> -1, ph |-> "none",
            res |-> "", val |-> 0, rep |-> "none", rv |-> 0, det |-> FALSE,
            lz |-> -1]          \* >= 0: the future exists but has not been polled yet; its timeout (0 = none) is armed at the first poll

NoHandle == [a |-> "", k |-> "none", vk |-> "ref"]

\* operations a (strong) handle of wrapper kind vk offers (handler.rs / actor_control.rs)
KindsOf(vk) == IF vk = "ref" THEN {"tell","ask","tellT","askT","askJ","stop","kill"}
               ELSE IF vk = "tellh" THEN {"tell","tellT","stop","kill"}
               ELSE IF vk = "askh" THEN {"ask","askT","stop","kill"}
               ELSE {"stop","kill"}

InitState ==
  [now |-> 0, nextH |-> 1, nextM |-> 1, nextOp |-> 1, nextId |-> 1, q |-> FALSE,
   A |-> [a \in Actors |-> NoActor],
   H |-> [h \in HIds |-> NoHandle],
   O |-> [o \in OpIds |-> NoOpRec],
   C |-> [c \in Clients |-> 0],
   wf |-> [a \in Actors |-> ""],         \* wait-for graph: caller |-> callee ("" = no edge)
   T |-> [m \in 1..MaxMsg |-> "none"],   \* tasks spawned by ask_join handlers, by request: "none" | "run" | "ok" | "panic"
   dlc |-> 0,                            \* dead-letter counter
   used |-> 0,
   pr |-> 0]                             \* clients ClientSeq[1..used] have issued an op (symmetry reduction)

-----------------------------------------------------------------------------
(* small helpers *)

SetA(s, a, u) == [s EXCEPT !.A[a] = u @@ @]
SetO(s, o, u) == [s EXCEPT !.O[o] = u @@ @]
R(s, evs) == [s |-> s, evs |-> evs]
Then(r, F(_)) == LET r2 == F(r.s) IN [s |-> r2.s, evs |-> r.evs \o r2.evs]

RemFirst(seq, x) ==
  LET idx == CHOOSE i \in 1..Len(seq) : seq[i] = x /\ \A j \in 1..(i-1) : seq[j] # x
  IN  SubSeq(seq, 1, idx-1) \o SubSeq(seq, idx+1, Len(seq))
InSeq(seq, x) == \E i \in 1..Len(seq) : seq[i] = x

IsAsk(s, o)   == s.O[o].kind \in AskKinds
IsTimed(s, o) == s.O[o].kind \in TimedKinds
OpName(k) == IF k \in {"tell","tellT"} THEN "tell" ELSE IF k \in AskKinds THEN "ask" ELSE k

(* tokio Sender::strong_count(): every live ActorRef clone, wherever it lives.            *)
(*  user handles + queued envelopes/markers + envelope being handled + the lifecycle      *)
(*  task's own reference (until on_start returns) + envelopes inside pending send futures *)
(*  + the stop marker bound in the select arm during on_stop + the metrics clone.         *)
Strong(s, a) ==
  LET A == s.A[a] IN
    Cardinality({h \in HIds : s.H[h].a = a /\ s.H[h].k = "s"})
  + (IF EnvelopeHoldsRef THEN Len(A.mbox) ELSE 0)
  + (IF A.cur # 0 THEN (IF MetricsOn THEN 2 ELSE 1) ELSE 0)
  + (IF A.own THEN 1 ELSE 0)
  + (IF A.marker THEN 1 ELSE 0)
  + Cardinality({o \in OpIds : s.O[o].a = a /\ (s.O[o].ph \in {"wait","granted"} \/ (s.O[o].det /\ s.O[o].ph = "new"))})

Alive(s, a) == ~s.A[a].closed

\* what the verification accessor ActorWeak::__verif_counts reports (it needs a strong sender
\* to read the capacity figures)
Sample(s, a) == [e |-> "Sample", a |-> a,
                 max |-> IF Strong(s, a) = 0 THEN 0 ELSE s.A[a].cap,
                 avail |-> IF Strong(s, a) = 0 \/ s.A[a].closed THEN 0 ELSE s.A[a].permits,
                 strong |-> Strong(s, a), dlc |-> s.dlc,
                 \* metrics feature: message_count, readable while a strong reference exists
                 mcnt |-> IF Strong(s, a) = 0 THEN -1 ELSE s.A[a].mcount]

-----------------------------------------------------------------------------
(* wait-for graph (lib.rs:333-379, actor_ref.rs:252-272) *)

\* has_path(graph, from, to): functional-graph walk bounded by graph.len()
RECURSIVE WalkTo(_, _, _, _)
WalkTo(wf, cur, to, fuel) ==
  IF fuel = 0 \/ wf[cur] = "" THEN FALSE
  ELSE IF wf[cur] = to THEN TRUE
  ELSE WalkTo(wf, wf[cur], to, fuel - 1)
HasPath(wf, from, to) == WalkTo(wf, from, to, Cardinality({a \in Actors : wf[a] # ""}))

RECURSIVE CyclePath(_, _, _, _)
CyclePath(wf, cur, caller, fuel) ==
  IF fuel = 0 \/ wf[cur] = "" THEN <<>>
  ELSE IF wf[cur] = caller THEN <<caller>>
  ELSE <<wf[cur]>> \o CyclePath(wf, wf[cur], caller, fuel - 1)
\* format_cycle_path as a sequence of actor names
CycleOf(wf, caller, callee) ==
  IF caller = callee THEN <<caller, caller>>
  ELSE <<caller, callee>> \o CyclePath(wf, callee, caller, Cardinality({a \in Actors : wf[a] # ""}))

ClearEdge(s, own) == IF own \in Actors THEN [s EXCEPT !.wf[own] = ""] ELSE s

-----------------------------------------------------------------------------
(* mailbox semaphore: a released permit goes to the oldest waiter first *)

RelPermit(s, a) ==
  LET A == s.A[a] IN
  IF A.closed THEN s
  ELSE IF A.waiters # <<>>
    THEN LET o == Head(A.waiters) IN
         IF s.O[o].det
           \* (deviations only) a send detached from its caller runs in the background: it pushes as soon as it gets the permit
           THEN SetO(SetA(s, a, [waiters |-> Tail(A.waiters), mbox |-> Append(A.mbox, o)]), o, [ph |-> "bg"])
           ELSE SetO(SetA(s, a, [waiters |-> Tail(A.waiters), granted |-> A.granted \cup {o}]),
                     o, [ph |-> "granted"])
    ELSE SetA(s, a, [permits |-> A.permits + 1])

-----------------------------------------------------------------------------
(* client-side operations *)

OpEndEv(s, o, res, val) == [e |-> "OpEnd", op |-> o, res |-> res, val |-> val, now |-> s.now,
                            retry |-> (res = "timeout")]

\* the op's future has produced its value: the owner is free again, the ask edge guard drops
Done(s, o, res, val) ==
  LET op == s.O[o]
      s1 == SetO(s, o, [ph |-> "done", res |-> res, val |-> val])
      s2 == IF op.own \in Clients THEN [s1 EXCEPT !.C[op.own] = 0]
            ELSE SetA(s1, op.own, [hop |-> 0])
      s3 == IF op.kind \in AskKinds /\ AskerGuard THEN ClearEdge(s2, op.own) ELSE s2
  IN R(s3, << OpEndEv(s, o, res, val) >>)

DeadLetterEv(s, o, reason) ==
  [e |-> "DeadLetter", op |-> o, a |-> s.O[o].a, reason |-> reason, opn |-> OpName(s.O[o].kind),
   mt |-> TRUE]

\* the mailbox is closed: tell/ask fail with Error::Send and record one dead letter; stop() maps it to Ok
FailSend(s, o) ==
  IF s.O[o].kind = "stop" THEN Done(s, o, "ok", 0)
  ELSE LET r == Done([s EXCEPT !.dlc = @ + 1], o, "send", 0)
       IN  R(r.s, << DeadLetterEv(s, o, "stopped") >> \o r.evs)

\* the envelope (carrying one strong reference) enters the queue
\* (OpPending is observed only on the first poll of an op; `first` says whether this is it)
Push(s, o, first) ==
  LET a == s.O[o].a
      s1 == SetA(s, a, [mbox |-> Append(s.A[a].mbox, o)])
  IN  IF IsAsk(s, o)
        THEN R(SetO(s1, o, [ph |-> "reply", rep |-> "open"]),
               IF first THEN << [e |-> "OpPending", op |-> o, tk |-> TRUE] >> ELSE <<>>)
        ELSE Done(s1, o, "ok", 0)

\* one poll of the send part of an op (tokio Sender::send = acquire permit, then push)
SendPoll(s, o) ==
  LET op == s.O[o]  a == op.a  A == s.A[a] IN
  IF op.ph = "new" THEN
       IF A.closed THEN FailSend(s, o)
       ELSE IF A.permits > 0 THEN Push(SetA(s, a, [permits |-> A.permits - 1]), o, TRUE)
       ELSE IF op.kind = "stop" /\ ~StopWaits
              THEN \* deviation: report success at once, keep sending in the background
                   \* (the background task has not run yet: it joins the wait queue in a later `bg` step)
                   LET r == Done(s, o, "ok", 0) IN
                   R(SetO(r.s, o, [ph |-> "new", det |-> TRUE]), r.evs)
       ELSE R(SetO(SetA(s, a, [waiters |-> Append(A.waiters, o)]), o, [ph |-> "wait"]),
              << [e |-> "OpPending", op |-> o, tk |-> FALSE] >>)
  ELSE IF op.ph = "wait" THEN
       \* only polled when the semaphore was closed (Pollable)
       FailSend(SetA(s, a, [waiters |-> IF InSeq(A.waiters, o) THEN RemFirst(A.waiters, o)
                                                                ELSE A.waiters]), o)
  ELSE \* "granted"
       IF A.closed THEN FailSend(SetA(s, a, [granted |-> A.granted \ {o}]), o)
       ELSE Push(SetA(s, a, [granted |-> A.granted \ {o}]), o, FALSE)

\* ask_join, second half: the JoinHandle received as the reply is awaited (actor_ref.rs:934-947)
JoinPoll(s, o) ==
  \* Error::Join carries tokio's JoinError: "join" = the task panicked, "joinc" = it was cancelled
  IF s.T[s.O[o].m] = "ok" THEN Done(s, o, "ok", s.O[o].rv)
  ELSE IF s.T[s.O[o].m] = "abort" THEN Done(s, o, "joinc", 0) ELSE Done(s, o, "join", 0)

ReplyPoll(s, o) ==
  LET op == s.O[o] IN
  IF op.rep = "val" THEN
       IF op.kind = "askJ"
         THEN \* `ask` has returned: its wait-for guard is gone although the operation goes on; the handle is polled at once
              LET s1 == SetO(IF AskerGuard THEN ClearEdge(s, op.own) ELSE s, o, [ph |-> "join"])
              IN  IF s.T[op.m] \in TaskOuts THEN JoinPoll(s1, o) ELSE R(s1, <<>>)
         ELSE Done(s, o, "ok", op.rv)
  ELSE \* "closed": oneshot sender dropped without a value
       LET r == Done([s EXCEPT !.dlc = @ + 1], o, "recv", 0)
       IN  R(r.s, << DeadLetterEv(s, o, "dropped") >> \o r.evs)

\* the future of a pending op is dropped (timeout elapsed, or its owner unwound)
Withdraw(s, o) ==
  LET op == s.O[o]  a == op.a  A == s.A[a] IN
  IF op.ph = "wait" THEN
       SetA(s, a, [waiters |-> IF InSeq(A.waiters, o) THEN RemFirst(A.waiters, o) ELSE A.waiters])
  ELSE IF op.ph = "granted" THEN RelPermit(SetA(s, a, [granted |-> A.granted \ {o}]), a)
  ELSE IF op.ph = "reply" /\ op.rep = "open" THEN SetO(s, o, [rep |-> "rxdrop"])
  ELSE s

InnerReady(s, o) ==
  LET op == s.O[o] IN
  \/ op.ph = "new"
  \/ op.ph = "wait" /\ s.A[op.a].closed
  \/ op.ph = "granted"
  \/ op.ph = "reply" /\ op.rep \in {"val","closed"}
  \/ op.ph = "join" /\ s.T[op.m] \in TaskOuts

Expired(s, o) == IsTimed(s, o) /\ s.O[o].ph \in {"new","wait","granted","reply"} /\ s.O[o].dl >= 0 /\ s.now >= s.O[o].dl

Unpolled(s, o) == s.O[o].ph = "new" /\ s.O[o].lz >= 0

Pollable(s, o) == \/ Unpolled(s, o)
                  \/ s.O[o].ph \in {"wait","granted","reply","join"} /\ (InnerReady(s, o) \/ Expired(s, o))

\* tokio::time::timeout polls the inner future first and the deadline second
RECURSIVE PollOp(_, _)
PollOp(s, o) ==
  IF Unpolled(s, o)
    THEN \* the very first poll of a future created earlier: only now does anything happen; the timeout starts counting here
         LET op == s.O[o]
             s1 == SetO(s, o, [dl |-> IF op.kind \in TimedKinds THEN s.now + op.lz ELSE -1, lz |-> -1])
             r  == PollOp(s1, o)
         IN  R(r.s, << [e |-> "OpArm", op |-> o, now |-> s.now] >> \o r.evs)
  ELSE
  LET op == s.O[o]
      r1 == IF op.ph \in {"new","wait","granted"} /\ InnerReady(s, o) THEN SendPoll(s, o)
            ELSE IF op.ph = "reply" /\ InnerReady(s, o) THEN ReplyPoll(s, o)
            ELSE IF op.ph = "join" /\ InnerReady(s, o) THEN JoinPoll(s, o)
            ELSE R(s, <<>>)
  IN  IF r1.s.O[o].ph # "done" /\ Expired(r1.s, o)
        THEN LET detach == ~TimeoutWithdraws /\ r1.s.O[o].ph = "wait"
                 s2 == IF detach THEN r1.s ELSE Withdraw(r1.s, o)
                 r3a == Done([s2 EXCEPT !.dlc = @ + 1], o, "timeout", 0)
                 r3 == IF detach THEN R(SetO(r3a.s, o, [ph |-> "wait", det |-> TRUE]), r3a.evs) ELSE r3a
             IN  R(r3.s, \* a pending-notification of the same poll is superseded by the result
                   SelectSeq(r1.evs, LAMBDA ev : ev.e # "OpPending")
                   \o << DeadLetterEv(s, o, "timeout") >> \o r3.evs)
        ELSE r1

\* kill(): try_send on the capacity-1 terminate channel; Full and Closed are mapped to Ok
KillNow(s, o) ==
  LET a == s.O[o].a  A == s.A[a]
      s1 == IF ~A.closed /\ ~A.term THEN SetA(s, a, [term |-> TRUE]) ELSE s
  IN  Done(s1, o, "ok", 0)

NewOp(s, own, kind, h, d) ==
  LET o == s.nextOp
      needM == kind \in MsgKinds
      rec == [own |-> own, kind |-> kind, h |-> h, a |-> s.H[h].a,
              m |-> IF needM THEN s.nextM ELSE 0,
              dl |-> IF kind \in TimedKinds THEN s.now + d ELSE -1,
              ph |-> "new", res |-> "", val |-> 0, rep |-> "none", rv |-> 0, det |-> FALSE, lz |-> -1]
  IN  [s EXCEPT !.O[o] = rec, !.nextOp = @ + 1, !.nextM = IF needM THEN @ + 1 ELSE @]

OpStartEv(s, o) ==
  LET op == s.O[o] IN
  [e |-> "OpStart", op |-> o, own |-> op.own, kind |-> op.kind, h |-> op.h, a |-> op.a,
   m |-> op.m, d |-> IF op.lz >= 0 THEN op.lz ELSE IF op.dl < 0 THEN 0 ELSE op.dl - s.now, now |-> s.now]

\* is the hook of actor `own` that is issuing an ask known to the deadlock detection (CURRENT_ACTOR scope)?
Scoped(s, own) == own \in Actors /\ (ScopedCleanupStop \/ ~(s.A[own].pc = "Stop" /\ s.A[own].runErr))

\* deadlock detection at the start of an ask issued inside a hook (actor_ref.rs:252-272)
WouldDeadlock(s, own, callee) ==
  DeadlockDetection /\ own \in Actors /\ Scoped(s, own) /\ (own = callee \/ HasPath(s.wf, callee, own))

\* first poll of a freshly created op (shared by clients and hooks); never called on a deadlock
FirstPoll(s, o) ==
  LET op == s.O[o]
      s0 == IF op.kind \in AskKinds /\ op.own \in Actors /\ Scoped(s, op.own)
              THEN [s EXCEPT !.wf[op.own] = op.a] ELSE s
      r  == IF op.kind = "kill" THEN KillNow(s0, o) ELSE PollOp(s0, o)
  IN  R(r.s, << OpStartEv(s, o) >> \o r.evs)

-----------------------------------------------------------------------------
(* actor side: run_actor_lifecycle *)

ResCompleted(k)   == [k |-> "completed", phase |-> "", killed |-> k, has |-> TRUE, err |-> "", msg |-> ""]
ResFailed(p,k,h,e) == [k |-> "failed", phase |-> p, killed |-> k, has |-> h, err |-> e, msg |-> ""]
ResPanic(m)       == [k |-> "panic", phase |-> "", killed |-> FALSE, has |-> FALSE, err |-> "", msg |-> m]

\* everything that happens when the task's future ends or is dropped: both receivers are
\* closed and dropped, queued envelopes are destroyed (closing their reply channels and
\* releasing their references), a nested op in flight is cancelled
Finish(s, a, res, cyc) ==
  LET A  == s.A[a]
      dropped == {A.mbox[i] : i \in 1..Len(A.mbox)} \cup (IF A.cur # 0 THEN {A.cur} ELSE {})
      s1 == [s EXCEPT !.O = [o \in OpIds |->
                 IF o \in dropped /\ s.O[o].rep = "open" THEN [rep |-> "closed"] @@ s.O[o] ELSE s.O[o]]]
      s2 == IF A.hop # 0 THEN SetO(Withdraw(s1, A.hop), A.hop, [ph |-> "dropped"]) ELSE s1
      s3 == SetA(s2, a, [pc |-> "Done", closed |-> TRUE, mbox |-> <<>>, cur |-> 0, own |-> FALSE,
                         marker |-> FALSE, hop |-> 0, term |-> FALSE, res |-> res])
      s4a == IF AskerGuard THEN ClearEdge(s3, a) ELSE s3
      \* destroying an unanswered request also releases its asker's edge (part of the F1 fix)
      askers == {s.O[o].own : o \in {x \in dropped : s.O[x].kind \in AskKinds
                                                       /\ s.O[x].rep \in (IF TokenedEdges THEN {"open"} ELSE {"open", "rxdrop"})}}
      s4 == IF EdgeClearedOnReply
              THEN [s4a EXCEPT !.wf = [x \in Actors |-> IF x \in askers THEN "" ELSE s4a.wf[x]]]
              ELSE s4a
  IN  R(s4, << [e |-> "Joined", a |-> a, res |-> res,
                jl |-> IF res.has THEN s.A[a].jl ELSE <<>>, cyc |-> cyc] >>)

EnterStop(s, a, k, viaMarker) ==
  R(SetA(s, a, [pc |-> "Stop", marker |-> viaMarker]),
    << [e |-> "HEnter", a |-> a, hook |-> "stop", m |-> 0, killed |-> k, n |-> 0] >>)

RECURSIVE SelectPart(_, _), RunFinish(_, _, _, _)

\* one pass of  tokio::select! { biased; terminate, mailbox, on_run if idle_enabled }
SelectPart(s, a) ==
  LET A == s.A[a] IN
  IF A.term /\ (TermFirst \/ A.mbox = <<>>) THEN
       LET k == KilledFromSignal \/ Strong(s, a) > 0 IN
       EnterStop(SetA(s, a, [term |-> FALSE, killed |-> k]), a, k, FALSE)
  ELSE IF Strong(s, a) = 0 /\ (TermFirst \/ A.mbox = <<>>) THEN EnterStop(SetA(s, a, [killed |-> FALSE]), a, FALSE, FALSE)
  ELSE IF A.mbox # <<>> THEN
       LET o  == Head(A.mbox)
           s1 == RelPermit(SetA(s, a, [mbox |-> Tail(A.mbox)]), a)
       IN  IF s.O[o].kind = "stop" THEN EnterStop(s1, a, FALSE, TRUE)
           ELSE R(SetA(s1, a, [pc |-> "Handler", cur |-> o, nh |-> A.nh + 1]),
                  << [e |-> "HEnter", a |-> a, hook |-> "handler", m |-> s.O[o].m,
                      killed |-> FALSE, n |-> A.nh + 1] >>)
  ELSE IF A.idle THEN
       LET r == R(SetA(s, a, [pc |-> "Run", inst |-> A.inst + 1, runNow |-> ""]),
                  << [e |-> "RunPoll", a |-> a, inst |-> A.inst + 1] >>)
       IN  \* an on_run that does not await anything returns in this very poll and the loop goes round again
           IF A.runNow # "" THEN Then(r, LAMBDA t : RunFinish(t, a, A.runNow, FALSE)) ELSE r
  ELSE R(SetA(s, a, [pc |-> "Idle"]), <<>>)

HExitEv(a, hook, m, out, v) == [e |-> "HExit", a |-> a, hook |-> hook, m |-> m, out |-> out, v |-> v]

\* reply value produced by the scripted handler: a function of the request and of actor state
ReplyVal(m, n) == m * 100 + n

PanicOutAs(s, a, hook, m, out) ==
  LET r == Finish(s, a, ResPanic("scripted"), <<>>)
  IN  R(r.s, << HExitEv(a, hook, m, out, 0) >> \o r.evs)
PanicOut(s, a, hook, m) == PanicOutAs(s, a, hook, m, "panic")

\* another select branch wins while on_run is parked: the on_run future is dropped, and with it a
\* nested operation it was awaiting (cancelled ask: its wait-for edge goes away with the future)
DropRun(s, a) ==
  LET A == s.A[a]
      s1 == IF A.hop # 0
              THEN LET t == SetO(Withdraw(s, A.hop), A.hop, [ph |-> "dropped"])
                   IN  SetA(IF s.O[A.hop].kind \in AskKinds /\ AskerGuard THEN ClearEdge(t, a) ELSE t, a, [hop |-> 0])
              ELSE s
  IN  R(s1, << [e |-> "RunDrop", a |-> a, inst |-> A.inst] >>)

\* the on_run future completes with outcome `dir` in the poll in progress (`polled` = this poll's RunPoll event has
\* not been emitted yet)
RunFinish(s, a, dir, polled) ==
  LET A == s.A[a]
      pe == (IF polled THEN << [e |-> "RunPoll", a |-> a, inst |-> A.inst] >> ELSE <<>>)
            \o << [e |-> "RunEnd", a |-> a, inst |-> A.inst, out |-> dir] >> IN
            IF dir = "true" THEN
                 Then(R(SetA(s, a, [jl |-> Append(A.jl, "run")]), pe), LAMBDA t : SelectPart(t, a))
            ELSE IF dir = "false" THEN
                 Then(R(SetA(s, a, [idle |-> FALSE, jl |-> Append(A.jl, "run")]), pe),
                      LAMBDA t : SelectPart(t, a))
            ELSE IF dir = "err" THEN
                 Then(R(SetA(s, a, [runErr |-> TRUE]), pe), LAMBDA t : EnterStop(t, a, FALSE, FALSE))
            ELSE LET r == Finish(s, a, ResPanic("scripted"), <<>>) IN R(r.s, pe \o r.evs)

\* a hook parked on its gate receives the directive `dir` (a hook outcome)
ExitHook(s, a, dir) ==
  LET A == s.A[a] IN
  IF A.pc = "Start" THEN
       IF dir = "ok" THEN
            Then(R(SetA(s, a, [own |-> FALSE, jl |-> Append(A.jl, "start")]),
                   << HExitEv(a, "start", 0, "ok", 0) >>),
                 LAMBDA t : SelectPart(t, a))
       ELSE IF dir = "err" THEN
            LET r == Finish(s, a, ResFailed("OnStart", FALSE, FALSE, "start"), <<>>)
            IN  R(r.s, << HExitEv(a, "start", 0, "err", 0) >> \o r.evs)
       ELSE PanicOut(s, a, "start", 0)
  ELSE IF A.pc = "Handler" THEN
       LET o == A.cur  m == s.O[o].m  v == ReplyVal(m, A.nh) IN
       IF dir \in {"ok", "slow", "veryslow"} THEN
            LET s1 == IF IsAsk(s, o)
                        THEN (IF s.O[o].rep = "open"
                                THEN LET t == SetO(s, o, [rep |-> "val", rv |-> v])
                                     IN  IF EdgeClearedOnReply
                                           THEN ClearEdge(t, s.O[o].own) ELSE t
                                \* the asker has gone (rep = "rxdrop"): the request's guard belongs to an ask that is over
                                ELSE IF ~TokenedEdges /\ EdgeClearedOnReply THEN ClearEdge(s, s.O[o].own) ELSE s)
                        ELSE s
                 evs == << HExitEv(a, "handler", m, dir, v) >>
                        \o (IF IsAsk(s, o) THEN <<>> ELSE << [e |-> "TellResult", a |-> a, m |-> m] >>)
                 \* an ask_join handler has spawned its task (whether or not anybody still waits for the handle)
                 s2 == IF s.O[o].kind = "askJ" THEN [s1 EXCEPT !.T[m] = "run"] ELSE s1
            IN  Then(R(SetA(s2, a, [cur |-> 0, jl |-> Append(A.jl, "h"), mcount |-> A.mcount + 1]), evs),
                     LAMBDA t : SelectPart(t, a))
       \* "panic" / "slowpanic" (panics after holding the thread for a while); the metrics guard drops on unwind
       ELSE PanicOutAs(SetA(s, a, [mcount |-> A.mcount + 1]), a, "handler", m, dir)
  ELSE IF A.pc = "Stop" THEN
       IF dir = "ok" THEN
            LET s1 == SetA(s, a, [jl |-> Append(A.jl, "stop")])
                r == Finish(s1, a, IF A.runErr THEN ResFailed("OnRun", A.killed, TRUE, "run")
                                               ELSE ResCompleted(A.killed), <<>>)
            IN  R(r.s, << HExitEv(a, "stop", 0, "ok", 0) >> \o r.evs)
       ELSE IF dir = "err" THEN
            LET r == Finish(s, a, IF A.runErr THEN ResFailed("OnRunThenOnStop", A.killed, TRUE, "run")
                                              ELSE ResFailed("OnStop", A.killed, TRUE, "stop"), <<>>)
            IN  R(r.s, << HExitEv(a, "stop", 0, "err", 0) >> \o r.evs)
       ELSE PanicOut(s, a, "stop", 0)
  ELSE \* "Run": the select is parked with the on_run future alive; the branches are polled in order
       IF A.term \/ Strong(s, a) = 0 \/ A.mbox # <<>> THEN
            \* another branch wins: the on_run future is dropped unfinished
            Then(DropRun(s, a), LAMBDA t : SelectPart(t, a))
       ELSE RunFinish(s, a, dir, TRUE)

\* a hook parked on its gate is told to perform a nested op on handle h
NestOp0(s, a, kind, h, d) ==
  LET callee == s.H[h].a IN
  IF kind \in AskKinds /\ WouldDeadlock(s, a, callee)
    THEN LET cyc == CycleOf(s.wf, a, callee)
             s1  == NewOp(s, a, kind, h, d)
             o   == s.nextOp
             r   == Finish(SetO(s1, o, [ph |-> "dropped"]), a, ResPanic("deadlock"), cyc)
         IN  R(r.s, << OpStartEv(s1, o) >> \o r.evs)
    ELSE LET s1 == NewOp(s, a, kind, h, d)
             o  == s.nextOp
             r  == FirstPoll(SetA(s1, a, [hop |-> o]), o)
         IN  r

\* inside on_run the operation is issued by a poll of the on_run future (logged as RunPoll).
\* `then` # "": if the operation completes at once, the hook finishes with that outcome in the very same poll
\* (a hook that does something and returns without yielding in between)
NestOp(s, a, kind, h, d, then) ==
  LET r   == NestOp0(s, a, kind, h, d)
      pc0 == s.A[a].pc
      B   == r.s.A[a]
      now == then # "" /\ B.pc = pc0 /\ B.hop = 0        \* completed at once, hook still alive
  IN
  IF pc0 # "Run" THEN (IF now THEN Then(r, LAMBDA t : ExitHook(t, a, then)) ELSE r)
  ELSE LET r1 == R(r.s, << [e |-> "RunPoll", a |-> a, inst |-> s.A[a].inst] >> \o r.evs) IN
       IF now THEN Then(r1, LAMBDA t : RunFinish(t, a, then, FALSE))
       \* the operation may have woken the actor's own task (a message, stop request or kill sent to
       \* itself): the select is polled again in the same burst and the branch before on_run wins
       ELSE IF B.pc = "Run" /\ (B.term \/ Strong(r.s, a) = 0 \/ B.mbox # <<>>)
         THEN Then(Then(r1, LAMBDA t : DropRun(t, a)), LAMBDA t : SelectPart(t, a))
         ELSE r1

OutsOf(pc) == IF pc = "Start" THEN StartOuts ELSE IF pc = "Handler" THEN HandlerOuts
              ELSE IF pc = "Stop" THEN StopOuts ELSE IF pc = "Run" THEN RunOuts ELSE {}

\* is there a reason for the runtime to poll the actor's task?
Woken(s, a) ==
  LET A == s.A[a] IN
  \/ A.pc = "Init"
  \/ A.pc \in {"Run","Idle"} /\ (A.term \/ Strong(s, a) = 0 \/ A.mbox # <<>>)
  \/ A.pc \in {"Start","Handler","Stop","Run"} /\ A.hop # 0 /\ Pollable(s, A.hop)

-----------------------------------------------------------------------------
(* commands *)

CmdEnabled(s, cmd) ==
  /\ ~s.q
  /\ CASE cmd.c = "spawn" -> /\ ~s.A[cmd.a].sp /\ s.nextH <= MaxH /\ cmd.cap \in CapChoices
                             /\ \A i \in DOMAIN ActorSeq : i < ActorIdx(cmd.a) => s.A[ActorSeq[i]].sp
       [] cmd.c = "start" -> /\ s.C[cmd.cl] = 0 /\ s.H[cmd.h].k = "s" /\ s.nextOp <= MaxOps
                             /\ ClientIdx(cmd.cl) <= s.used + 1     \* clients are interchangeable
                             /\ cmd.kind \in OpKinds /\ cmd.kind \in KindsOf(s.H[cmd.h].vk)
                             /\ (cmd.kind \in MsgKinds => s.nextM <= MaxMsg)
                             /\ (cmd.kind \in TimedKinds => cmd.d \in Timeouts /\ s.now + cmd.d <= MaxTime)
                             /\ (cmd.kind \notin TimedKinds => cmd.d = 0)
       [] cmd.c = "create" -> /\ LazyStart /\ s.C[cmd.cl] = 0 /\ s.H[cmd.h].k = "s" /\ s.nextOp <= MaxOps
                              /\ ClientIdx(cmd.cl) <= s.used + 1
                              /\ cmd.kind \in OpKinds \cap MsgKinds /\ cmd.kind \in KindsOf(s.H[cmd.h].vk)
                              /\ s.nextM <= MaxMsg
                              /\ (cmd.kind \in TimedKinds => cmd.d \in Timeouts /\ s.now + cmd.d <= MaxTime)
                              /\ (cmd.kind \notin TimedKinds => cmd.d = 0)
       [] cmd.c = "poll"  -> s.C[cmd.cl] # 0 /\ Pollable(s, s.C[cmd.cl])
       [] cmd.c = "burst" ->
            LET A == s.A[cmd.a] IN
            /\ A.sp
            /\ \/ cmd.dir = "none" /\ Woken(s, cmd.a)
               \/ /\ A.pc \in {"Start","Handler","Stop","Run"} /\ A.hop = 0
                  /\ cmd.dir \in OutsOf(A.pc)
                  /\ (A.pc = "Run" /\ cmd.dir = "true" => A.inst < MaxRun)
       [] cmd.c = "nest"  ->
            LET A == s.A[cmd.a] IN
            /\ A.sp /\ A.pc \in NestHooks /\ A.hop = 0 /\ cmd.kind \in NestKinds
            \* an on_run future only gets to act when the two branches before it are pending
            /\ (A.pc = "Run" => ~(A.term \/ Strong(s, cmd.a) = 0 \/ A.mbox # <<>>))
            /\ s.H[cmd.h].k = "s" /\ s.nextOp <= MaxOps /\ s.nextM <= MaxMsg
            /\ cmd.kind \in KindsOf(s.H[cmd.h].vk)
            /\ (cmd.kind \in TimedKinds => cmd.d \in Timeouts /\ s.now + cmd.d <= MaxTime)
            /\ (cmd.kind \notin TimedKinds => cmd.d = 0)
            /\ (AvoidCycles /\ cmd.kind \in AskKinds =>
                   LET callee == s.H[cmd.h].a IN cmd.a # callee /\ ~HasPath(s.wf, callee, cmd.a))
            /\ \/ cmd.then = ""
               \/ /\ NestThen /\ cmd.then \in OutsOf(A.pc)
                  /\ (A.pc = "Run" /\ cmd.then = "true" => A.inst < MaxRun)
       [] cmd.c = "advance" -> /\ cmd.d >= 1 /\ s.now + cmd.d <= MaxTime
                               \* a client collects every result that is ready before time moves on
                               /\ \A c \in Clients : s.C[c] = 0 \/ ~Pollable(s, s.C[c]) \/ Unpolled(s, s.C[c])
                               \* only useful when some deadline lies ahead, or a future waits for its first poll
                               /\ \E o \in OpIds : \/ s.O[o].ph \in {"wait","granted","reply"} /\ s.O[o].dl > s.now
                                                   \/ Unpolled(s, o) /\ s.O[o].lz > 0 /\ s.now + cmd.d + s.O[o].lz <= MaxTime
       [] cmd.c = "clone" -> "clone" \in HandleOps /\ s.H[cmd.h].k \in {"s","w"} /\ s.nextH <= MaxH
       [] cmd.c = "drop"  -> /\ "drop" \in HandleOps /\ s.H[cmd.h].k \in {"s","w"}
                             /\ ~\E o \in OpIds : s.O[o].h = cmd.h /\ s.O[o].ph \in {"new","wait","granted","reply","join"}
       [] cmd.c = "down"  -> "down" \in HandleOps /\ s.H[cmd.h].k = "s" /\ s.nextH <= MaxH
       [] cmd.c = "up"    -> "up" \in HandleOps /\ s.H[cmd.h].k = "w" /\ s.nextH <= MaxH
       [] cmd.c = "alive" -> "alive" \in HandleOps /\ s.H[cmd.h].k \in {"s","w"} /\ s.pr < MaxProbes
       [] cmd.c = "ident" -> "ident" \in HandleOps /\ s.H[cmd.h].k \in {"s","w"} /\ s.pr < MaxProbes
       [] cmd.c = "erase" -> /\ "erase" \in HandleOps /\ s.H[cmd.h].k \in {"s","w"} /\ s.H[cmd.h].vk = "ref"
                             /\ cmd.vk \in EraseKinds
                             /\ (cmd.by = "ref" => s.nextH <= MaxH)
                             /\ ~\E o \in OpIds : s.O[o].h = cmd.h /\ s.O[o].ph \in {"new","wait","granted","reply","join"}
       [] cmd.c = "bg" -> s.O[cmd.op].det /\ s.O[cmd.op].ph = "new"      \* deviations only
       [] cmd.c = "quiesce" ->
            /\ \A c \in Clients : s.C[c] = 0 \/ ~Pollable(s, s.C[c])
            /\ \A a \in Actors : s.A[a].sp =>
                  /\ ~Woken(s, a)
                  /\ s.A[a].pc \in {"Run","Idle","Done"} \/ s.A[a].hop # 0
            /\ \A o \in OpIds : s.O[o].ph \in {"wait","granted","reply"} => s.O[o].dl < 0
            /\ \A m \in 1..MaxMsg : s.T[m] # "run"          \* every spawned task has been told how to end
       [] cmd.c = "task" -> s.T[cmd.m] = "run" /\ cmd.out \in TaskOuts
       [] cmd.c = "arm"  -> LET A == s.A[cmd.a] IN
                            /\ ArmRun /\ A.sp /\ A.pc \in {"Init", "Start", "Handler"} /\ A.idle /\ A.runNow = "" /\ cmd.out \in RunOuts
                            /\ (cmd.out = "true" => A.inst + 1 < MaxRun)
       [] OTHER -> FALSE

DoRaw(s, cmd) ==
  CASE cmd.c = "spawn" ->
         LET a == cmd.a  h == s.nextH
             A == [NoActor EXCEPT !.sp = TRUE, !.pc = "Init", !.cap = cmd.cap, !.permits = cmd.cap,
                                  !.own = TRUE, !.id = s.nextId]
         IN  R([s EXCEPT !.A[a] = A, !.H[h] = [a |-> a, k |-> "s", vk |-> "ref"], !.nextH = @ + 1, !.nextId = @ + 1],
               << [e |-> "Spawn", a |-> a, cap |-> cmd.cap, id |-> s.nextId, h |-> h] >>)
    [] cmd.c = "start" ->
         LET s1 == NewOp(s, cmd.cl, cmd.kind, cmd.h, cmd.d)
             o  == s.nextOp
         IN  FirstPoll([s1 EXCEPT !.C[cmd.cl] = o,
                                  !.used = IF ClientIdx(cmd.cl) > @ THEN ClientIdx(cmd.cl) ELSE @], o)
    [] cmd.c = "create" ->
         \* the future is built (async fn: nothing runs yet) and held by the client
         LET s1 == NewOp(s, cmd.cl, cmd.kind, cmd.h, 0)
             o  == s.nextOp
             s2 == SetO([s1 EXCEPT !.C[cmd.cl] = o,
                                   !.used = IF ClientIdx(cmd.cl) > @ THEN ClientIdx(cmd.cl) ELSE @], o, [dl |-> -1, lz |-> cmd.d])
         IN  R(s2, << [lazy |-> TRUE] @@ OpStartEv(s2, o) >>)
    [] cmd.c = "poll"  -> PollOp(s, s.C[cmd.cl])
    [] cmd.c = "burst" ->
         LET a == cmd.a  A == s.A[a] IN
         IF A.pc = "Init" THEN
              R(SetA(s, a, [pc |-> "Start"]),
                << [e |-> "HEnter", a |-> a, hook |-> "start", m |-> 0, killed |-> FALSE, n |-> 0] >>)
         ELSE IF A.pc = "Run" /\ (A.term \/ Strong(s, a) = 0 \/ A.mbox # <<>>) /\ cmd.dir = "none" THEN
              Then(DropRun(s, a), LAMBDA t : SelectPart(t, a))
         ELSE IF A.hop # 0 THEN                        \* the hook resumes iff its nested op completes
              IF A.pc = "Run"
                THEN LET r  == PollOp(s, A.hop)
                         r1 == R(r.s, << [e |-> "RunPoll", a |-> a, inst |-> A.inst] >> \o r.evs)
                         B  == r.s.A[a]
                     IN  \* a pending operation on the actor itself that gets through in this poll (a message, stop
                         \* request or kill sent to itself) wakes the actor's own task: the select is polled again
                         \* in the same burst and the branch before on_run wins (as in NestOp)
                         IF B.pc = "Run" /\ (B.term \/ Strong(r.s, a) = 0 \/ B.mbox # <<>>)
                           THEN Then(Then(r1, LAMBDA t : DropRun(t, a)), LAMBDA t : SelectPart(t, a))
                           ELSE r1
                ELSE PollOp(s, A.hop)
         ELSE IF cmd.dir # "none" THEN ExitHook(s, a, cmd.dir)
         ELSE IF A.pc = "Run" THEN
              Then(DropRun(s, a), LAMBDA t : SelectPart(t, a))
         ELSE SelectPart(s, a)                         \* "Idle" woken
    [] cmd.c = "nest"  -> NestOp(s, cmd.a, cmd.kind, cmd.h, cmd.d, cmd.then)
    [] cmd.c = "advance" -> R([s EXCEPT !.now = @ + cmd.d], << [e |-> "Advance", now |-> s.now + cmd.d] >>)
    [] cmd.c = "clone" ->
         R([s EXCEPT !.H[s.nextH] = s.H[cmd.h], !.nextH = @ + 1],
           << [e |-> "Clone", h |-> cmd.h, h2 |-> s.nextH, a |-> s.H[cmd.h].a, k |-> s.H[cmd.h].k] >>)
    [] cmd.c = "drop"  ->
         R([s EXCEPT !.H[cmd.h] = [a |-> s.H[cmd.h].a, k |-> "dead", vk |-> "ref"]],
           << [e |-> "DropH", h |-> cmd.h, a |-> s.H[cmd.h].a, k |-> s.H[cmd.h].k] >>)
    [] cmd.c = "down"  ->
         R([s EXCEPT !.H[s.nextH] = [a |-> s.H[cmd.h].a, k |-> "w", vk |-> s.H[cmd.h].vk], !.nextH = @ + 1],
           << [e |-> "Down", h |-> cmd.h, h2 |-> s.nextH, a |-> s.H[cmd.h].a] >>)
    [] cmd.c = "up"    ->
         LET a == s.H[cmd.h].a  ok == Strong(s, a) > 0 IN
         IF ok THEN R([s EXCEPT !.H[s.nextH] = [a |-> a, k |-> "s", vk |-> s.H[cmd.h].vk], !.nextH = @ + 1],
                      << [e |-> "Up", h |-> cmd.h, h2 |-> s.nextH, a |-> a, ok |-> TRUE] >>)
               ELSE R(s, << [e |-> "Up", h |-> cmd.h, h2 |-> 0, a |-> a, ok |-> FALSE] >>)
    [] cmd.c = "alive" ->
         LET a == s.H[cmd.h].a IN
         R([s EXCEPT !.pr = @ + 1], << [e |-> "Alive", h |-> cmd.h, a |-> a, k |-> s.H[cmd.h].k,
                  val |-> IF s.H[cmd.h].k = "s" THEN Alive(s, a) ELSE Strong(s, a) > 0] >>)
    [] cmd.c = "ident" ->
         R([s EXCEPT !.pr = @ + 1],
           << [e |-> "Ident", h |-> cmd.h, a |-> s.H[cmd.h].a, id |-> s.A[s.H[cmd.h].a].id] >>)
    [] cmd.c = "erase" ->
         \* From<ActorRef>/From<ActorWeak> (by value: same handle, new wrapper) or From<&...> (a boxed clone)
         LET hh == s.H[cmd.h] IN
         IF cmd.by = "val"
           THEN R([s EXCEPT !.H[cmd.h] = [hh EXCEPT !.vk = cmd.vk]],
                  << [e |-> "Erase", h |-> cmd.h, h2 |-> 0, a |-> hh.a, k |-> hh.k, vk |-> cmd.vk] >>)
           ELSE R([s EXCEPT !.H[s.nextH] = [hh EXCEPT !.vk = cmd.vk], !.nextH = @ + 1],
                  << [e |-> "Erase", h |-> cmd.h, h2 |-> s.nextH, a |-> hh.a, k |-> hh.k, vk |-> cmd.vk] >>)
    [] cmd.c = "bg" ->
         \* first poll of a send that was detached from its caller (no observable event of its own)
         LET o == cmd.op  a == s.O[o].a  A == s.A[a] IN
         IF A.closed THEN R(SetO(s, o, [ph |-> "done"]), <<>>)
         ELSE IF A.permits > 0
           THEN R(SetO(SetA(s, a, [permits |-> A.permits - 1, mbox |-> Append(A.mbox, o)]), o, [ph |-> "bg"]), <<>>)
           ELSE R(SetO(SetA(s, a, [waiters |-> Append(A.waiters, o)]), o, [ph |-> "wait"]), <<>>)
    [] cmd.c = "arm" -> R(SetA(s, cmd.a, [runNow |-> cmd.out]), <<>>)       \* (scripting only: nothing happens yet)
    [] cmd.c = "task" ->
         \* the task spawned by the handler of request m ends (it runs on a runtime of its own)
         R([s EXCEPT !.T[cmd.m] = cmd.out], << [e |-> "TaskEnd", m |-> cmd.m, out |-> cmd.out] >>)
    [] cmd.c = "quiesce" ->
         R([s EXCEPT !.q = TRUE],
           << [e |-> "Quiescent",
               pending |-> SetToSortSeq({o \in OpIds : s.O[o].ph \in {"wait","granted","reply","join"}},
                                        LAMBDA x, y : x < y),
               unjoined |-> SelectSeq(ActorSeq, LAMBDA a : s.A[a].sp /\ s.A[a].pc # "Done"),
               wf |-> LET cs == SelectSeq(ActorSeq, LAMBDA a : s.wf[a] # "")
                      IN  [i \in 1..Len(cs) |-> << cs[i], s.wf[cs[i]] >>],
               now |-> s.now] >>)

\* forget the details of ops that are finished and whose message is no longer anywhere
\* (pure state-space reduction: nothing reads those fields again)
Forget(s) ==
  LET live == UNION {{s.A[a].mbox[i] : i \in 1..Len(s.A[a].mbox)} \cup {s.A[a].cur} : a \in Actors}
  IN  [s EXCEPT !.O = [o \in OpIds |->
          IF s.O[o].ph \in {"done","dropped"} /\ o \notin live
            THEN [NoOpRec EXCEPT !.ph = "done"] ELSE s.O[o]],
                !.T = [m \in 1..MaxMsg |->
          IF s.T[m] \in TaskOuts /\ ~\E o \in OpIds : s.O[o].m = m /\ (s.O[o].ph \notin {"done","dropped"} \/ o \in live)
            THEN "none" ELSE s.T[m]]]

\* every command is followed by one Sample per spawned actor (verification accessor H2)
Do(s, cmd) ==
  LET r0 == DoRaw(s, cmd)
      r  == R(Forget(r0.s), r0.evs)
      sp == SelectSeq(ActorSeq, LAMBDA a : r.s.A[a].sp)
  IN  R(r.s, r.evs \o [i \in 1..Len(sp) |-> Sample(r.s, sp[i])])

-----------------------------------------------------------------------------
(* the command alphabet, one named definition per driver action *)

SpawnCmds   == {[c |-> "spawn", a |-> a, cap |-> k] : a \in Actors, k \in CapChoices}
StartCmds   == {[c |-> "start", cl |-> cl, kind |-> k, h |-> h, d |-> d] :
                   cl \in Clients, k \in OpKinds, h \in HIds, d \in Timeouts \cup {0}}
CreateCmds  == {[c |-> "create", cl |-> cl, kind |-> k, h |-> h, d |-> d] :
                   cl \in Clients, k \in OpKinds \cap MsgKinds, h \in HIds, d \in Timeouts \cup {0}}
PollCmds    == {[c |-> "poll", cl |-> cl] : cl \in Clients}
BurstCmds   == {[c |-> "burst", a |-> a, dir |-> d] :
                   a \in Actors, d \in {"none"} \cup StartOuts \cup HandlerOuts \cup RunOuts \cup StopOuts}
NestCmds    == {[c |-> "nest", a |-> a, kind |-> k, h |-> h, d |-> d, then |-> t] :
                   a \in Actors, k \in NestKinds, h \in HIds, d \in Timeouts \cup {0},
                   t \in {""} \cup (IF NestThen THEN StartOuts \cup HandlerOuts \cup RunOuts \cup StopOuts ELSE {})}
AdvanceCmds == {[c |-> "advance", d |-> d] : d \in 1..MaxTime}
HandleCmds  == {[c |-> k, h |-> h] : k \in HandleOps \ {"erase"}, h \in HIds}
EraseCmds   == {[c |-> "erase", h |-> h, vk |-> vk, by |-> by] : h \in HIds, vk \in EraseKinds, by \in {"val","ref"}}
BgCmds      == {[c |-> "bg", op |-> o] : o \in OpIds}
ArmCmds     == {[c |-> "arm", a |-> a, out |-> x] : a \in Actors, x \in RunOuts}
TaskCmds    == {[c |-> "task", m |-> m, out |-> x] : m \in 1..MaxMsg, x \in TaskOuts}
QuiesceCmd  == [c |-> "quiesce"]

=============================================================================
