----------------------------- MODULE ResultLaws -----------------------------
(* C05 (second half): the query methods of ActorResult agree with the variant's fields.   *)
(* AllValues enumerates every (variant, phase, killed, actor present) combination; Expect   *)
(* states what each accessor / conversion must return.  TLC prints the values as the test   *)
(* corpus (mode "gen") and validates the outputs recorded from the real type (mode "check").*)
EXTENDS Naturals, Sequences, FiniteSets, TLC, Json, IOUtils

Phases == {"OnStart", "OnRun", "OnStop", "OnRunThenOnStop"}

AllValues ==
  {[variant |-> "Completed", phase |-> "", killed |-> k, has |-> TRUE] : k \in BOOLEAN}
  \cup {[variant |-> "Failed", phase |-> p, killed |-> k, has |-> h] : p \in Phases, k \in BOOLEAN, h \in BOOLEAN}

Expect(v) ==
  LET c == v.variant = "Completed" IN
  [is_completed      |-> c,
   is_failed         |-> ~c,
   was_killed        |-> v.killed,
   stopped_normally  |-> c /\ ~v.killed,
   is_startup_failed |-> ~c /\ v.phase = "OnStart",
   is_runtime_failed |-> ~c /\ v.phase \in {"OnRun", "OnRunThenOnStop"},
   is_cleanup_failed |-> ~c /\ v.phase = "OnRunThenOnStop",
   is_stop_failed    |-> ~c /\ v.phase = "OnStop",
   has_actor         |-> v.has,
   actor_some        |-> v.has,          \* actor() / into_actor() return the very actor that was put in
   actor_same        |-> v.has,
   error_some        |-> ~c,             \* error() / into_error() return the very error that was put in
   error_same        |-> ~c,
   to_result_ok      |-> c,              \* to_result(): Ok(actor) iff Completed, else Err(error)
   to_result_same    |-> TRUE,
   tuple_actor       |-> v.has,          \* From<ActorResult> for (Option<T>, Option<E>)
   tuple_error       |-> ~c,
   phase_display     |-> v.phase]        \* Display of FailurePhase is its name

Mode == IOEnv.LAWMODE
Rec  == IF Mode = "check" THEN ndJsonDeserialize(IOEnv.TRACE) ELSE <<>>

Gen == PrintT(<<"LAWS", ToJson(AllValues)>>)

Check ==
  /\ \A i \in 1..Len(Rec) :
        LET r == Rec[i]  e == Expect(r.value) IN
        \/ r.value \in AllValues /\ r.out = e
        \/ PrintT(ToString(<<"LAWBAD", i, r.value, r.out, e>>))
  /\ LET seen == {Rec[i].value : i \in 1..Len(Rec)} IN
     \/ seen = AllValues
     \/ PrintT(ToString(<<"LAWMISSING", AllValues \ seen>>))
  /\ PrintT(ToString(<<"LAWCHECKED", Len(Rec), Cardinality(AllValues)>>))

ASSUME IF Mode = "gen" THEN Gen ELSE Check
=============================================================================
