SPECIFICATION Spec
CHECK_DEADLOCK FALSE
INVARIANTS C01 C02 C03 C04 C05 C06 C07 C08 C09 C10 C11 C12 C13 C14 C15 C19 PermitConservation WaitersOnlyWhenFull
CONSTANTS
  ActorSeq <- k_ActorSeq
  ClientSeq <- k_ClientSeq
  CapChoices = {1}
  MaxMsg = 2
  MaxOps = 3
  MaxH = 2
  MaxTime = 2
  Timeouts = {1}
  OpKinds = {"tell","ask","tellT","askT","stop","kill"}
  StartOuts = {"ok","err","panic"}
  HandlerOuts = {"ok","panic"}
  RunOuts = {"true","false","err","panic"}
  StopOuts = {"ok","err","panic"}
  NestKinds = {}
  NestHooks = {}
  HandleOps = {"clone","drop","down","up","alive"}
  DeadlockDetection = FALSE
  EdgeClearedOnReply = FALSE
  MetricsOn = FALSE
  MaxRun = 2
