----------------------------- MODULE DefaultCap -----------------------------
(* C09 (second half): capacity 0 is rejected, the process-wide default can be configured   *)
(* exactly once with a non-zero value, spawn() uses it (else 32).  A behaviour is a short    *)
(* sequence of operations executed in one fresh process; TLC enumerates all of them (mode   *)
(* "gen") and validates what the real code answered (mode "check").                          *)
EXTENDS Naturals, Sequences, FiniteSets, TLC, Json, IOUtils

Ops == { [op |-> "set", n |-> 0], [op |-> "set", n |-> 1], [op |-> "set", n |-> 7], [op |-> "set", n |-> 40],
         [op |-> "spawn", n |-> 0],                        \* spawn(): default capacity
         [op |-> "spawn_with", n |-> 0], [op |-> "spawn_with", n |-> 3], [op |-> "spawn_with", n |-> 33] }
MaxLen == 3

RECURSIVE SeqsUpTo(_)
SeqsUpTo(n) == IF n = 0 THEN {<<>>} ELSE LET S == SeqsUpTo(n - 1) IN S \cup {Append(s, o) : s \in {x \in S : Len(x) = n - 1}, o \in Ops}
Behaviours == SeqsUpTo(MaxLen) \ {<<>>}

\* state: the configured default (0 = unset); result of one op
Step(cfg, o) ==
  IF o.op = "set" THEN
       IF o.n = 0 THEN [cfg |-> cfg, res |-> "err"]
       ELSE IF cfg = 0 THEN [cfg |-> o.n, res |-> "ok"]
       ELSE [cfg |-> cfg, res |-> "err"]
  ELSE IF o.op = "spawn" THEN [cfg |-> cfg, res |-> "cap", cap |-> IF cfg = 0 THEN 32 ELSE cfg]
  ELSE IF o.n = 0 THEN [cfg |-> cfg, res |-> "panic"]
  ELSE [cfg |-> cfg, res |-> "cap", cap |-> o.n]

RECURSIVE Run(_, _)
Run(cfg, ops) ==
  IF ops = <<>> THEN <<>>
  ELSE LET r == Step(cfg, Head(ops)) IN
       << IF r.res = "cap" THEN [res |-> "cap", cap |-> r.cap] ELSE [res |-> r.res, cap |-> 0] >> \o Run(r.cfg, Tail(ops))

Mode == IOEnv.LAWMODE
Rec  == IF Mode = "check" THEN ndJsonDeserialize(IOEnv.TRACE) ELSE <<>>

Gen == PrintT(<<"CAPS", ToJson(Behaviours)>>)

\* a recorded capacity must agree both through the accessor (max) and through the public API
\* (number of tells accepted by an actor that is not taking messages = filled)
Check ==
  /\ \A i \in 1..Len(Rec) :
        LET r == Rec[i]  e == Run(0, r.ops) IN
        \/ /\ Len(r.out) = Len(e)
           /\ \A j \in 1..Len(e) : r.out[j].res = e[j].res
                                   /\ (e[j].res = "cap" => r.out[j].max = e[j].cap /\ r.out[j].filled = e[j].cap)
        \/ PrintT(ToString(<<"CAPBAD", i, r.ops, r.out, e>>))
  /\ PrintT(ToString(<<"CAPCHECKED", Len(Rec), Cardinality(Behaviours)>>))

ASSUME IF Mode = "gen" THEN Gen ELSE Check
=============================================================================
