------------------------------ MODULE TraceEq ------------------------------
(* Observational equality of two recorded traces of the same schedules (C16: direct vs.   *)
(* type-erased handles; C18: default vs. optional features).  The traces are compared run *)
(* by run after projecting away what the property does not speak about; every run whose   *)
(* projections differ is reported as a DIFF line with the first differing position.       *)
EXTENDS Naturals, Sequences, FiniteSets, TLC, Json, IOUtils, SequencesExt

TA == ndJsonDeserialize(IOEnv.TRACE)
TB == ndJsonDeserialize(IOEnv.TRACE2)
\* "exact": everything except the feature flags of Reset; "behaviour": also without the samples
\* of internal counters and the wait-for snapshot (they legitimately depend on the feature set)
Mode == IOEnv.EQMODE

Keep(e) == IF Mode = "exact" THEN TRUE ELSE e.e \notin {"Sample", "Metrics"}
Proj(e) ==
  IF e.e = "Reset" THEN [e |-> "Reset", run |-> e.run]
  ELSE IF e.e = "Quiescent" /\ Mode # "exact" THEN [e EXCEPT !.wf = <<>>]
  ELSE e

Starts(T) == SetToSortSeq({i \in 1..Len(T) : T[i].e = "Reset"}, LAMBDA x, y : x < y)

RunSeq(T, st, k) ==
  LET from == st[k]
      to   == IF k < Len(st) THEN st[k + 1] - 1 ELSE Len(T)
      raw  == SubSeq(T, from, to)
      kept == SelectSeq(raw, Keep)
  IN  [i \in 1..Len(kept) |-> Proj(kept[i])]

HasDeadlockPanic(run) == \E i \in 1..Len(run) : run[i].e = "Joined" /\ run[i].res.msg = "deadlock"

FirstDiff(a, b) ==
  LET n == IF Len(a) < Len(b) THEN Len(a) ELSE Len(b)
      ds == {i \in 1..n : a[i] # b[i]}
  IN  IF ds = {} THEN n + 1 ELSE CHOOSE i \in ds : \A j \in ds : i <= j

Compare ==
  LET sa == Starts(TA)  sb == Starts(TB) IN
  /\ (Len(sa) # Len(sb) => PrintT(ToString(<<"DIFF", 0, 0, "different number of runs", Len(sa), Len(sb)>>)))
  /\ \A k \in 1..(IF Len(sa) < Len(sb) THEN Len(sa) ELSE Len(sb)) :
        LET a == RunSeq(TA, sa, k)  b == RunSeq(TB, sb, k) IN
        IF a = b THEN TRUE
        \* (only when the caller cannot rule out genuine ask cycles in the schedules: a deadlock panic then is the
        \* documented behaviour of the feature, not a difference)
        ELSE IF Mode = "behaviour" /\ IOEnv.EQSKIP = "cycles" /\ (HasDeadlockPanic(a) \/ HasDeadlockPanic(b))
          THEN PrintT(ToString(<<"SKIP", TA[sa[k]].run, "ask cycle (deadlock panic) in one of the runs">>))
          ELSE LET i == FirstDiff(a, b) IN
               PrintT(ToString(<<"DIFF", TA[sa[k]].run, i,
                                 IF i <= Len(a) THEN a[i] ELSE "end of trace",
                                 IF i <= Len(b) THEN b[i] ELSE "end of trace">>))

ASSUME Compare
ASSUME PrintT(ToString(<<"COMPARED", Len(Starts(TA)), Len(TA), Len(TB)>>))
=============================================================================
