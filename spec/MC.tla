--------------------------------- MODULE MC ---------------------------------
(* Model checking: every behaviour of RsActor (within the constants of the .cfg) with  *)
(* the property monitors folded over the events of each step.                         *)
EXTENDS RsActor, Monitors

VARIABLES st, mon
vars == <<st, mon>>

Init == st = InitState /\ mon = MonInit(TRUE, DeadlockDetection)

Apply(cmd) ==
  /\ CmdEnabled(st, cmd) = TRUE
  /\ LET r == Do(st, cmd) IN
     /\ st' = r.s
     /\ mon' = MonFold(mon, << [e |-> "Cmd", cmd |-> cmd] >> \o r.evs)

Spawn    == \E cmd \in SpawnCmds   : Apply(cmd)
Start    == \E cmd \in StartCmds   : Apply(cmd)
PollC    == \E cmd \in PollCmds    : Apply(cmd)
Burst    == \E cmd \in BurstCmds   : Apply(cmd)
Nest     == \E cmd \in NestCmds    : Apply(cmd)
Advance  == \E cmd \in AdvanceCmds : Apply(cmd)
HandleOp == \E cmd \in HandleCmds  : Apply(cmd)
Erase    == \E cmd \in EraseCmds   : Apply(cmd)
Bg       == \E cmd \in BgCmds      : Apply(cmd)
Task     == \E cmd \in TaskCmds    : Apply(cmd)
Arm      == \E cmd \in ArmCmds     : Apply(cmd)
Create   == \E cmd \in CreateCmds  : Apply(cmd)
Quiesce  == Apply(QuiesceCmd)

Next == Spawn \/ Start \/ PollC \/ Burst \/ Nest \/ Advance \/ HandleOp \/ Erase \/ Bg \/ Task \/ Arm \/ Create \/ Quiesce
Spec == Init /\ [][Next]_vars

C01 == InvC01(mon)
C02 == InvC02(mon)
C03 == InvC03(mon)
C04 == InvC04(mon)
C05 == InvC05(mon)
C06 == InvC06(mon)
C07 == InvC07(mon)
C08 == InvC08(mon)
C09 == InvC09(mon)
C10 == InvC10(mon)
C11 == InvC11(mon)
C12 == InvC12(mon)
C13 == InvC13(mon)
C14 == InvC14(mon)
C15 == InvC15(mon)
C19 == InvC19(mon)
C20 == InvC20(mon)

(* structural invariants of the model itself *)
PermitConservation ==
  \A a \in Actors : st.A[a].sp /\ ~st.A[a].closed =>
      Len(st.A[a].mbox) + Cardinality(st.A[a].granted) + st.A[a].permits = st.A[a].cap
WaitersOnlyWhenFull ==
  \A a \in Actors : st.A[a].waiters # <<>> /\ ~st.A[a].closed => st.A[a].permits = 0
=============================================================================
