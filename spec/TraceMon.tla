------------------------------ MODULE TraceMon ------------------------------
(* Replays an NDJSON event trace recorded from the real code through the property      *)
(* monitors.  Every event that adds a violation is reported as a BAD line; the          *)
(* postcondition demands that the whole trace was consumed.                            *)
EXTENDS Monitors, Json, IOUtils

Rec == ndJsonDeserialize(IOEnv.TRACE)

VARIABLES l, run, mon
vars == <<l, run, mon>>

Init == l = 1 /\ run = 0 /\ mon = MonInit(TRUE, FALSE)

Next ==
  /\ l <= Len(Rec)
  /\ LET ev == Rec[l]
         m2 == MonStep(mon, ev)
         fresh == IF ev.e = "Reset" THEN {} ELSE m2.bad \ mon.bad
     IN  /\ mon' = m2
         /\ run' = IF ev.e = "Reset" THEN ev.run ELSE run
         /\ (fresh # {} => PrintT(ToString(<<"BAD", run, l, fresh>>)))
         /\ (ev.e # "Reset" /\ ~mon.crashed /\ m2.crashed => PrintT(ToString(<<"CRASHED", run>>)))
  /\ l' = l + 1

Spec == Init /\ [][Next]_vars

Consumed ==
  \/ TLCGet("stats").diameter - 1 = Len(Rec)
  \/ PrintT(ToString(<<"UNCONSUMED", TLCGet("stats").diameter, Len(Rec)>>)) /\ FALSE
=============================================================================
