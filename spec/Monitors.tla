------------------------------ MODULE Monitors ------------------------------
(***************************************************************************)
(* The listed properties C01..C20 written ONCE, as a monitor over the      *)
(* event vocabulary shared by the model (RsActor.tla emits these events)   *)
(* and the implementation harness (which records them as NDJSON).          *)
(*                                                                         *)
(*   MonInit(strict, dd)     initial monitor state                         *)
(*   MonStep(mon, ev)        fold one event                                *)
(*   InvCxx(mon)             property Cxx has not been violated            *)
(*                                                                         *)
(* A violation is recorded as a pair <<"Cxx", reason>> in mon.bad, so that *)
(* the reason is visible in TLC's counterexample / the trace-check output. *)
(* The monitor state holds relations (sets, counters, flags), never event  *)
(* indices, so that it does not make every model path a distinct state.    *)
(*                                                                         *)
(* `strict` = the trace comes from cooperative scheduling (one command at  *)
(* a time, bursts are atomic): facts about "before the current burst" are  *)
(* then exact.  Stress traces (real threads) are checked with strict=FALSE *)
(* and only the rules that are sound for interval orders are applied.      *)
(***************************************************************************)
EXTENDS Naturals, Integers, Sequences, FiniteSets, TLC

\* traces from real threads (strict = FALSE) carry wall-clock times in microseconds
SlackUs == 1000000   \* scheduling slack granted to wall-clock deadlines on real threads (C17)

MsgKindsM  == {"tell","ask","tellT","askT","askJ"}   \* askJ = ask_join
AskKindsM  == {"ask","askT","askJ"}
TellKindsM == {"tell","tellT"}
TimedKindsM == {"tellT","askT"}

NoActM ==
  [cap |-> 0, id |-> 0, seen |-> FALSE,
   startN |-> 0, startOut |-> "", stopN |-> 0, stopKilled |-> FALSE, stopOut |-> "",
   inHook |-> "", panicIn |-> "", runErr |-> FALSE,
   joined |-> FALSE, joinedNow |-> 0, res |-> "",
   order |-> <<>>,                 \* messages in handler-entry order
   userStrong |-> 0,               \* strong handles held by clients (all kinds, erased or not)
   lastMax |-> 0, lastAvail |-> 0, lastStrong |-> 0,
   stopReq |-> FALSE,              \* some stop() has been called
   stopRet |-> FALSE,              \* some stop() has returned Ok
   killStarted |-> FALSE,          \* some kill() has been called
   killArmed |-> FALSE,            \* a kill() returned while the actor had not begun stopping
   killOld |-> FALSE,              \* ... before the current command (strict traces)
   afterKill |-> 0,                \* handler entries after killArmed
   oldAcc |-> {},                  \* accepted, untaken messages at the start of the current command
   oldStop |-> FALSE,              \* an accepted, untaken stop marker at the start of the current command
   runInst |-> 0, runOpen |-> FALSE, runDisabled |-> FALSE, expectRun |-> FALSE,
   nestOp |-> 0,                   \* in-flight nested op of the hook in progress
   jl |-> <<>>,
   hdone |-> 0,                    \* handler exits (any outcome)
   slowDone |-> FALSE,             \* some handler demonstrably took >= SlowUs
   verySlowDone |-> FALSE,         \* some handler demonstrably took >= VerySlowUs
   lastCnt |-> 0,                  \* last message_count seen
   tellPending |-> 0,              \* tell handler finished, on_tell_result not seen yet (message id)
   sendErr |-> FALSE]              \* some tell/ask has returned Error::Send (the mailbox was found closed)

NoOpM == [own |-> "", kind |-> "", a |-> "", m |-> 0, d |-> 0, stNow |-> 0,
          done |-> FALSE, res |-> "", dls |-> <<>>, afterJoin |-> FALSE, mustPanic |-> FALSE, jp |-> FALSE, pend |-> FALSE,
          acc |-> FALSE,
          armed |-> TRUE,          \* FALSE: the future exists but has not been polled yet (its timeout is not running)
          afterSendErr |-> FALSE,  \* the call began after some tell/ask to the same actor had returned Error::Send
          pair |-> 0]             \* # 0: the same call issued twice in the same situation, on the ActorRef and through a wrapper

NoMsgM == [op |-> 0, a |-> "", handled |-> 0, acc |-> FALSE, preStop |-> FALSE, postStop |-> FALSE,
           before |-> {}, rejected |-> FALSE, replied |-> FALSE, rv |-> 0, repNow |-> 0, tr |-> 0,
           tout |-> ""]      \* how the task spawned by this request's (ask_join) handler ended: "" | "ok" | "panic" | "abort"

MonInit(strict, dd) ==
  [strict |-> strict, dd |-> dd, now |-> 0, bad |-> {}, dlCount |-> 0, crashed |-> FALSE,
   act |-> <<>>, ops |-> <<>>, msgs |-> <<>>, hs |-> <<>>, ids |-> {}]

Has(f, k) == k \in DOMAIN f
ActOf(mon, a) == IF Has(mon.act, a) THEN mon.act[a] ELSE NoActM
OpOf(mon, o)  == IF Has(mon.ops, o) THEN mon.ops[o] ELSE NoOpM
MsgOf(mon, m) == IF Has(mon.msgs, m) THEN mon.msgs[m] ELSE NoMsgM
Put(f, k, v) == (k :> v) @@ f
UpdA(mon, a, u) == [mon EXCEPT !.act = Put(mon.act, a, u @@ ActOf(mon, a))]
UpdO(mon, o, u) == [mon EXCEPT !.ops = Put(mon.ops, o, u @@ OpOf(mon, o))]
UpdM(mon, m, u) == [mon EXCEPT !.msgs = Put(mon.msgs, m, u @@ MsgOf(mon, m))]
AddBad(mon, S) == [mon EXCEPT !.bad = @ \cup S]
B(c, p, why) == IF c THEN {<<p, why>>} ELSE {}

RangeOf(seq) == {seq[i] : i \in DOMAIN seq}

\* messages addressed to actor a
MsgsTo(mon, a) == {m \in DOMAIN mon.msgs : mon.msgs[m].a = a}
\* accepted and not yet taken by the loop
Untaken(mon, a) == {m \in MsgsTo(mon, a) : mon.msgs[m].acc /\ mon.msgs[m].handled = 0}

\* the actor has not begun to end (as far as the trace shows)
Running(A) == A.seen /\ ~A.joined /\ A.stopN = 0 /\ A.panicIn = "" /\ A.startOut # "err"

-----------------------------------------------------------------------------
(* in-flight unanswered nested asks: the wait-for relation as the TRACE shows it *)

Edge(mon, x) ==   \* target of x's unanswered in-flight ask, or ""
  LET A == ActOf(mon, x) IN
  IF A.nestOp = 0 THEN ""
  ELSE LET op == OpOf(mon, A.nestOp) IN
       IF op.kind \in AskKindsM /\ ~op.done /\ ~MsgOf(mon, op.m).replied THEN op.a ELSE ""

RECURSIVE Reaches(_, _, _, _)
Reaches(mon, from, to, fuel) ==
  IF fuel = 0 THEN FALSE
  ELSE LET n == Edge(mon, from) IN
       IF n = "" THEN FALSE ELSE IF n = to THEN TRUE ELSE Reaches(mon, n, to, fuel - 1)

-----------------------------------------------------------------------------
(* per-event steps *)

OnReset(mon, ev) == MonInit(ev.strict, ev.feats.dd)

OnCmd(mon, ev) ==
  LET acts == DOMAIN mon.act
      \* C08: after Ok(true) the idle handler must be polled again when the actor is next idle;
      \* in a cooperative trace that is before the burst ends
      b1 == UNION {B(mon.strict /\ mon.act[a].expectRun, "C08", "on_run not polled again after Ok(true)") : a \in acts}
      \* C19 (runtime half): a finished tell handler is followed by on_tell_result in the same burst
      b2 == UNION {B(mon.strict /\ mon.act[a].tellPending # 0, "C19", "on_tell_result not invoked after a tell") : a \in acts}
      \* C10: time is about to move although a client's timed op should already have returned
      adv == ev.cmd.c = "advance"
      b3 == UNION {B(mon.strict /\ adv /\ ~mon.ops[o].done /\ mon.ops[o].armed /\ mon.ops[o].kind \in TimedKindsM
                     /\ ~Has(mon.act, mon.ops[o].own)
                     /\ (mon.now >= mon.ops[o].stNow + mon.ops[o].d \/ ActOf(mon, mon.ops[o].a).joined),
                     "C10", "timed op still pending past its deadline or after its actor ended") : o \in DOMAIN mon.ops}
      m1 == [mon EXCEPT !.act = [a \in acts |->
                 [mon.act[a] EXCEPT !.oldAcc = Untaken(mon, a),
                                    !.oldStop = mon.act[a].stopRet /\ Running(mon.act[a]),
                                    !.killOld = mon.act[a].killArmed,
                                    !.expectRun = FALSE, !.tellPending = 0]]]
  IN  AddBad(m1, b1 \cup b2 \cup b3)

OnSpawn(mon, ev) ==
  LET b == B(ev.id \in mon.ids, "C11", "actor id reused")
      m1 == UpdA(mon, ev.a, [cap |-> ev.cap, id |-> ev.id, seen |-> TRUE, userStrong |-> 1])
  IN  AddBad([m1 EXCEPT !.ids = @ \cup {ev.id}, !.hs = Put(@, ev.h, [a |-> ev.a, k |-> "s"])], b)

OnOpStart(mon, ev) ==
  LET A == ActOf(mon, ev.a)
      isMsg == ev.kind \in MsgKindsM
      nested == Has(mon.act, ev.own)
      \* C14: would this ask close a cycle of unanswered in-flight asks?
      cyc == mon.dd /\ nested /\ ev.kind \in AskKindsM
             /\ (ev.own = ev.a \/ Reaches(mon, ev.a, ev.own, Cardinality(DOMAIN mon.act) + 1))
      m1 == UpdO(mon, ev.op, [own |-> ev.own, kind |-> ev.kind, a |-> ev.a, m |-> ev.m, d |-> ev.d,
                              jp |-> IF "jp" \in DOMAIN ev THEN ev.jp ELSE FALSE,
                              pair |-> IF "pair" \in DOMAIN ev THEN ev.pair ELSE 0,
                              armed |-> ~("lazy" \in DOMAIN ev /\ ev.lazy),
                              stNow |-> ev.now, afterJoin |-> A.joined, afterSendErr |-> A.sendErr, mustPanic |-> cyc])
      m2 == IF isMsg
              THEN UpdM(m1, ev.m, [op |-> ev.op, a |-> ev.a, before |-> {x \in MsgsTo(mon, ev.a) : mon.msgs[x].acc},
                                   postStop |-> A.stopRet])
              ELSE m1
      m3 == IF ev.kind = "stop" THEN UpdA(m2, ev.a, [stopReq |-> TRUE])
            ELSE IF ev.kind = "kill" THEN UpdA(m2, ev.a, [killStarted |-> TRUE])
            ELSE m2
      m4 == IF nested THEN UpdA(m3, ev.own, [nestOp |-> ev.op]) ELSE m3
  IN  m4

\* the message of op o has entered the mailbox (certain knowledge only)
Accept(mon, o) ==
  LET op == OpOf(mon, o) IN
  IF op.kind \in MsgKindsM
    THEN UpdM(UpdO(mon, o, [acc |-> TRUE]), op.m, [acc |-> TRUE, preStop |-> ~ActOf(mon, op.a).stopReq])
    ELSE UpdO(mon, o, [acc |-> TRUE])

OnOpPending(mon, ev) ==
  LET op == OpOf(mon, ev.op)
      A  == ActOf(mon, op.a)
      b  == B(op.kind = "kill", "C06", "kill() did not return immediately")
            \cup B(op.mustPanic, "C14", "ask closing a cycle was sent instead of panicking")
            \cup B(mon.strict /\ ~ev.tk /\ A.lastAvail > 0, "C09", "send waited although a slot was free")
            \cup B(mon.strict /\ ev.tk /\ A.lastAvail = 0, "C09", "send entered a full mailbox")
      m0 == UpdO(mon, ev.op, [pend |-> TRUE])
      m1 == IF ev.tk /\ op.kind \in AskKindsM THEN Accept(m0, ev.op) ELSE m0
  IN  AddBad(m1, b)

DlMatches(op, d) ==
  /\ d.a = op.a /\ d.mt
  /\ \/ op.res = "send" /\ d.reason = "stopped"
     \/ op.res = "timeout" /\ d.reason = "timeout"
     \/ op.res = "recv" /\ d.reason = "dropped"
  /\ \/ op.kind \in TellKindsM /\ d.opn \in {"tell", "blocking_tell"}
     \/ op.kind \in AskKindsM /\ d.opn \in {"ask", "blocking_ask"}

OnOpEnd(mon, ev) ==
  LET op0 == OpOf(mon, ev.op)
      op  == [op0 EXCEPT !.done = TRUE, !.res = ev.res]
      A   == ActOf(mon, op.a)
      M   == MsgOf(mon, op.m)
      isMsg == op.kind \in MsgKindsM
      timed == op.kind \in TimedKindsM
      dl  == op.stNow + op.d
      failed == ev.res \in {"send","timeout","recv"}
      b == \* C10
           B(ev.retry # (ev.res = "timeout"), "C10", "is_retryable disagrees with Timeout")
           \cup B(ev.res = "timeout" /\ ~timed, "C10", "Timeout from an op without timeout")
           \cup B(ev.res = "timeout" /\ timed /\ ev.now < dl, "C10", "Timeout before the deadline")
           \cup B(mon.strict /\ ev.res = "timeout" /\ op.kind = "askT" /\ M.replied /\ M.repNow < dl,
                  "C10", "Timeout although the reply was produced before the deadline")
           \cup B(mon.strict /\ ev.res = "timeout" /\ timed /\ A.joined /\ A.joinedNow < dl,
                  "C10", "Timeout although the actor had ended before the deadline")
           \* C17: on real threads (wall clock, milliseconds) a timed operation returns by its deadline plus scheduling slack
           \cup B(~mon.strict /\ timed /\ ev.now > dl + SlackUs, "C17", "timed operation returned long after its deadline")
           \cup B(~mon.strict /\ ev.res = "other", "C17", "operation failed with an unexpected error")
           \* C13
           \cup B(ev.res = "ok" /\ op.dls # <<>>, "C13", "dead letter recorded for a successful operation")
           \cup B(~isMsg /\ op.dls # <<>>, "C13", "dead letter recorded for stop/kill")
           \cup B(isMsg /\ failed /\ Len(op.dls) # 1, "C13", "failed delivery without exactly one dead letter")
           \cup B(isMsg /\ failed /\ Len(op.dls) = 1 /\ ~DlMatches(op, op.dls[1]),
                  "C13", "dead letter does not match the returned error")
           \* C03
           \cup B(ev.res = "ok" /\ op.kind \in AskKindsM /\ ~(M.replied /\ M.rv = ev.val),
                  "C03", "ask returned a value its handler did not produce")
           \cup B(op.mustPanic, "C14", "ask closing a cycle completed instead of panicking")
           \* C01
           \cup B(isMsg /\ (ev.res = "send" \/ (ev.res = "timeout" /\ op.kind = "tellT")) /\ M.handled > 0,
                  "C01", "message of a failed send was handled")
           \* C09: a tell / stop that returned Ok from its very first poll found a free slot; if the previous sample
           \* showed none (and the actor has not ended) it did not wait for one
           \cup B(mon.strict /\ ~op.pend /\ ev.res = "ok" /\ op.kind \in {"tell", "tellT", "stop"} /\ ~A.joined
                  /\ A.lastStrong > 0 /\ A.lastMax > 0 /\ A.lastAvail = 0 /\ ~Has(mon.act, op.own),
                  "C09", "send into a full mailbox completed at once instead of waiting")
           \* C09: a mailbox never reopens, so a send that began after another one had failed with Send cannot be accepted;
           \* if it is, the earlier one failed on a mailbox that was merely full (it must wait, not fail)
           \cup B(isMsg /\ op.afterSendErr /\ (ev.res = "ok" \/ (op.kind \in AskKindsM /\ ev.res \in {"recv", "timeout"} /\ op.acc)),
                  "C09", "a send failed with Error::Send although the mailbox accepted a later message: it did not wait for a slot")
           \* C06
           \cup B(op.kind = "kill" /\ ev.res # "ok", "C06", "kill() failed")
           \* C11
           \cup B(isMsg /\ op.afterJoin /\ ev.res # "send", "C11", "send to an ended actor did not fail")
           \cup B(ev.res \notin {"ok","send","timeout","recv","join","joinc"}, "C03", "unexpected error kind")
           \* ask_join returns exactly the output, or the join error, of the task the handler spawned
           \cup B(ev.res = "join" /\ ~(op.kind = "askJ" /\ (op.jp \/ M.tout = "panic")), "C03", "join error although the spawned task did not fail")
           \cup B(op.kind = "askJ" /\ ev.res = "ok" /\ (op.jp \/ M.tout \in {"panic", "abort"}), "C03", "ask_join returned a value although the spawned task panicked or was cancelled")
           \* the JoinError inside Error::Join says truthfully whether the task was cancelled or panicked
           \cup B(ev.res = "joinc" /\ ~(op.kind = "askJ" /\ M.tout = "abort"), "C03", "ask_join reported a cancelled task although the spawned task was not aborted")
           \cup B(mon.strict /\ ev.res = "join" /\ M.tout = "abort", "C03", "ask_join reported a panicked task although the spawned task was aborted")
           \* cooperative traces say when each spawned task ends
           \cup B(mon.strict /\ op.kind = "askJ" /\ ev.res \in {"ok", "join", "joinc"} /\ M.tout = "",
                  "C03", "ask_join returned before the task its handler spawned had ended")
           \cup B(op.kind = "askJ" /\ ev.res = "recv" /\ M.replied, "C03", "ask_join did not return the outcome of the task its handler spawned")
           \* C16: the same call on the ActorRef and through a type-erased wrapper, issued in the same situation
           \cup B(op.pair # 0 /\ \E o2 \in DOMAIN mon.ops : /\ o2 # ev.op /\ mon.ops[o2].pair = op.pair
                                                              /\ mon.ops[o2].done /\ mon.ops[o2].res # ev.res,
                  "C16", "a call through a type-erased wrapper and the same call on the ActorRef ended differently")
      m1 == [mon EXCEPT !.ops = Put(mon.ops, ev.op, op)]
      m2 == IF isMsg /\ (ev.res = "send" \/ (ev.res = "timeout" /\ op.kind = "tellT"))
              THEN UpdM(m1, op.m, [rejected |-> TRUE]) ELSE m1
      m3 == IF ev.res = "ok" /\ op.kind \in TellKindsM THEN Accept(m2, ev.op) ELSE m2
      m4 == IF op.kind = "stop" /\ ev.res = "ok" THEN UpdA(m3, op.a, [stopRet |-> TRUE]) ELSE m3
      m5 == IF op.kind = "kill" /\ Running(A) THEN UpdA(m4, op.a, [killArmed |-> TRUE]) ELSE m4
      m6 == IF Has(mon.act, op.own) /\ ActOf(mon, op.own).nestOp = ev.op
              THEN UpdA(m5, op.own, [nestOp |-> 0]) ELSE m5
      m7 == IF isMsg /\ ev.res = "send" THEN UpdA(m6, op.a, [sendErr |-> TRUE]) ELSE m6
  IN  AddBad(m7, b)

OnHEnter(mon, ev) ==
  LET a == ev.a  A == ActOf(mon, a) IN
  IF ev.hook = "start" THEN
       AddBad(UpdA(mon, a, [startN |-> A.startN + 1, inHook |-> "start"]),
              B(A.startN > 0 \/ A.stopN > 0 \/ A.order # <<>> \/ A.runInst > 0,
                "C04", "on_start entered twice or after another hook"))
  ELSE IF ev.hook = "handler" THEN
       LET m == ev.m  M == MsgOf(mon, m)
           b == B(A.startOut # "ok" \/ A.stopN > 0 \/ A.panicIn # "" \/ A.inHook # "" \/ A.joined,
                  "C04", "handler entered outside the running phase")
                \cup B(M.handled > 0, "C01", "message handled twice")
                \cup B(M.rejected, "C01", "message of a failed send was handled")
                \cup B(\E m2 \in RangeOf(A.order) : m \in MsgOf(mon, m2).before,
                       "C02", "message handled after one whose send began after it was accepted")
                \cup B(M.postStop, "C02", "message sent after stop() returned was handled")
                \cup B(A.killArmed /\ A.afterKill >= 1, "C06", "more than one handler started after kill() returned")
                \* after on_run returned Err the next (and last) hook is on_stop(killed = false)
                \cup B(A.runErr, "C08", "a message was handled after on_run had returned Err")
                \cup B(A.runErr, "C04", "a message was handled after on_run had returned Err")
                \cup B(~Has(mon.msgs, m), "C01", "handler ran for a message nobody sent")
                \cup B(M.a # a /\ Has(mon.msgs, m), "C01", "message handled by the wrong actor")
           m1 == UpdM(mon, m, [handled |-> M.handled + 1])
           m2 == UpdA(m1, a, [order |-> Append(A.order, m), inHook |-> "handler",
                              afterKill |-> IF A.killArmed THEN A.afterKill + 1 ELSE A.afterKill,
                              expectRun |-> FALSE])
       IN  AddBad(m2, b)
  ELSE \* "stop"
       LET clean == ~ev.killed /\ ~A.runErr
           lost  == {m \in MsgsTo(mon, a) : mon.msgs[m].acc /\ mon.msgs[m].preStop /\ mon.msgs[m].handled # 1}
           b == B(A.startOut # "ok" \/ A.stopN > 0 \/ A.panicIn # "" \/ A.inHook # "" \/ A.joined,
                  "C04", "on_stop entered twice or outside the running phase")
                \cup B(ev.killed /\ ~A.killStarted, "C04", "on_stop(killed=true) without any kill()")
                \cup B(mon.strict /\ A.killOld /\ ~ev.killed /\ ~A.runErr, "C04", "kill() had returned but on_stop got killed=false")
                \cup B(mon.strict /\ A.killOld /\ ~ev.killed /\ ~A.runErr, "C06", "kill() had returned but on_stop got killed=false")
                \cup B(clean /\ lost # {}, "C01", "accepted before stop()/last drop but not handled before on_stop")
                \* (the same condition is C07's "finishes the work accepted before that point")
                \cup B(clean /\ lost # {}, "C07", "on_stop(killed=false) entered although work accepted before the stop / last drop was not finished")
                \* (needs the complete handle history, which only cooperative traces record)
                \cup B(mon.strict /\ clean /\ ~A.stopReq /\ A.userStrong > 0, "C07", "actor stopped although referenced and never stopped/killed")
                \cup B(A.runErr /\ ev.killed, "C08", "on_stop(killed=true) after an on_run error")
                \* C07 "unless a kill or crash intervenes ... runs on_stop(killed=false)": with no kill() ever called the
                \* one on_stop of a stopped / unreferenced actor is the graceful one, and it is not abandoned for another
                \cup B(ev.killed /\ ~A.killStarted, "C07", "on_stop(killed=true) although no kill() was ever called")
                \cup B(A.stopN > 0 /\ ~A.killStarted /\ A.panicIn = "", "C07", "a second on_stop was entered (the graceful one was abandoned) although no kill or crash intervened")
           m1 == UpdA(mon, a, [stopN |-> A.stopN + 1, stopKilled |-> ev.killed, inHook |-> "stop",
                               expectRun |-> FALSE])
       IN  AddBad(m1, b)

OnHExit(mon, ev) ==
  LET a == ev.a  A == ActOf(mon, a)
      b0 == B(A.inHook # ev.hook, "C04", "hook exit without matching entry")
      pan == IF ev.out \in {"panic", "slowpanic"} THEN ev.hook ELSE A.panicIn
      crashed == mon.crashed \/ ev.out \in {"panic", "slowpanic", "err"}
  IN
  IF ev.hook = "start" THEN
       AddBad([UpdA(mon, a, [startOut |-> ev.out, inHook |-> "", panicIn |-> pan,
                             jl |-> IF ev.out = "ok" THEN <<"start">> ELSE <<>>])
               EXCEPT !.crashed = crashed], b0)
  ELSE IF ev.hook = "handler" THEN
       LET M == MsgOf(mon, ev.m)
           isTell == OpOf(mon, M.op).kind \in TellKindsM
           ok == ev.out \in {"ok", "slow", "veryslow"}
           m1 == IF ok
                   THEN UpdM(mon, ev.m, [replied |-> TRUE, rv |-> ev.v, repNow |-> mon.now]) ELSE mon
           m2 == UpdA(m1, a, [inHook |-> "", panicIn |-> pan,
                              jl |-> IF ok THEN Append(A.jl, "h") ELSE A.jl,
                              hdone |-> A.hdone + 1, slowDone |-> A.slowDone \/ ev.out \in {"slow", "slowpanic", "veryslow"},
                              verySlowDone |-> A.verySlowDone \/ ev.out = "veryslow",
                              tellPending |-> IF ok /\ isTell THEN ev.m ELSE 0])
       IN  AddBad([m2 EXCEPT !.crashed = crashed], b0)
  ELSE \* stop
       AddBad([UpdA(mon, a, [stopOut |-> ev.out, inHook |-> "", panicIn |-> pan,
                             jl |-> IF ev.out = "ok" THEN Append(A.jl, "stop") ELSE A.jl])
               EXCEPT !.crashed = crashed], b0)

OnTellResult(mon, ev) ==
  LET A == ActOf(mon, ev.a)  M == MsgOf(mon, ev.m)
      b == B(OpOf(mon, M.op).kind \in AskKindsM, "C19", "on_tell_result invoked for an ask")
           \cup B(M.tr >= 1, "C19", "on_tell_result invoked twice")
           \cup B(A.tellPending # ev.m, "C19", "on_tell_result without a finished tell handler")
  IN  AddBad(UpdA(UpdM(mon, ev.m, [tr |-> M.tr + 1]), ev.a, [tellPending |-> 0]), b)

OnRunPoll(mon, ev) ==
  LET a == ev.a  A == ActOf(mon, a)
      new == ev.inst # A.runInst
      b == B(A.startOut # "ok" \/ A.stopN > 0 \/ A.panicIn # "" \/ A.inHook # "" \/ A.joined,
             "C04", "on_run polled outside the running phase")
           \cup B(A.runDisabled, "C08", "on_run polled after it returned Ok(false)")
           \cup B(A.runErr, "C08", "on_run polled after it returned Err")
           \cup B(mon.strict /\ (A.oldAcc \cap Untaken(mon, a)) # {}, "C08", "on_run polled while a message was waiting")
           \cup B(mon.strict /\ A.oldStop, "C08", "on_run polled while a stop request was waiting")
           \cup B(mon.strict /\ A.killOld, "C08", "on_run polled while a kill was pending")
           \cup B(new /\ A.runOpen, "C08", "new on_run invocation while the previous one is still alive")
           \cup B(new /\ ev.inst # A.runInst + 1, "C08", "on_run invocation counter skipped")
  IN  AddBad(UpdA(mon, a, [runInst |-> ev.inst, runOpen |-> TRUE, expectRun |-> FALSE]), b)

OnRunEnd(mon, ev) ==
  LET a == ev.a  A == ActOf(mon, a)
      b == B(~A.runOpen \/ ev.inst # A.runInst, "C08", "on_run ended without being polled")
      u == [runOpen |-> FALSE,
            runDisabled |-> A.runDisabled \/ ev.out = "false",
            expectRun |-> ev.out = "true",
            runErr |-> A.runErr \/ ev.out = "err",
            panicIn |-> IF ev.out = "panic" THEN "run" ELSE A.panicIn,
            jl |-> IF ev.out \in {"true","false"} THEN Append(A.jl, "run") ELSE A.jl]
  IN  AddBad([UpdA(mon, a, u) EXCEPT !.crashed = mon.crashed \/ ev.out \in {"err","panic"}], b)

\* the on_run future was dropped; an operation it was awaiting is cancelled with it
OnRunDrop(mon, ev) ==
  LET A == ActOf(mon, ev.a)
      m1 == IF A.nestOp # 0 THEN UpdO(mon, A.nestOp, [done |-> TRUE, mustPanic |-> FALSE]) ELSE mon
  IN  UpdA(m1, ev.a, [runOpen |-> FALSE, nestOp |-> 0])

OnDeadLetter(mon, ev) ==
  LET known == Has(mon.ops, ev.op) /\ ~OpOf(mon, ev.op).done
      m1 == IF known THEN UpdO(mon, ev.op, [dls |-> Append(OpOf(mon, ev.op).dls,
                                   [a |-> ev.a, reason |-> ev.reason, opn |-> ev.opn, mt |-> ev.mt])])
            ELSE mon
  IN  AddBad([m1 EXCEPT !.dlCount = @ + 1],
             B(~known, "C13", "dead letter recorded outside any running operation"))

ExpectedRes(A) ==
  IF A.panicIn # "" THEN [k |-> "panic", phase |-> "", killed |-> FALSE, has |-> FALSE, err |-> ""]
  ELSE IF A.startOut = "err" THEN [k |-> "failed", phase |-> "OnStart", killed |-> FALSE, has |-> FALSE, err |-> "start"]
  ELSE IF A.runErr THEN
       [k |-> "failed", phase |-> IF A.stopOut = "ok" THEN "OnRun" ELSE "OnRunThenOnStop",
        killed |-> FALSE, has |-> TRUE, err |-> "run"]
  ELSE IF A.stopOut = "ok" THEN [k |-> "completed", phase |-> "", killed |-> A.stopKilled, has |-> TRUE, err |-> ""]
  ELSE [k |-> "failed", phase |-> "OnStop", killed |-> A.stopKilled, has |-> TRUE, err |-> "stop"]

OnJoined(mon, ev) ==
  LET a == ev.a  A == ActOf(mon, a)  r == ev.res
      deadlock == r.k = "panic" /\ r.msg = "deadlock"
      exp == ExpectedRes(A)
      \* hook in which the task blew up (a refused ask panics inside whatever hook issued it, on_run included)
      fatalIn == IF deadlock THEN (IF A.inHook # "" THEN A.inHook ELSE IF A.runOpen THEN "run" ELSE "") ELSE A.panicIn
      stopExpected == A.startOut = "ok" /\ fatalIn \in {"", "stop"}
      \* every edge of the reported cycle must be an unanswered in-flight ask
      n == Len(ev.cyc)
      cycOk == /\ n >= 2 /\ ev.cyc[1] = a /\ ev.cyc[n] = a
               /\ A.nestOp # 0 /\ OpOf(mon, A.nestOp).a = ev.cyc[2]
               /\ \A i \in 2..(n-1) : Edge(mon, ev.cyc[i]) = ev.cyc[i+1]
      b == B(A.joined, "C04", "actor joined twice")
           \cup B(~deadlock /\ A.inHook # "" /\ A.panicIn = "", "C04", "actor ended inside a hook that did not finish")
           \cup B(stopExpected /\ (A.stopN # 1 \/ (fatalIn = "" /\ A.stopOut = "")), "C04", "actor ended without running on_stop")
           \cup B(~stopExpected /\ A.stopN # 0, "C04", "on_stop ran after a failed start or a panic")
           \cup B(~deadlock /\ (r.k # exp.k \/ r.phase # exp.phase \/ r.killed # exp.killed
                                 \/ r.has # exp.has \/ r.err # exp.err),
                  "C05", "ActorResult differs from what the hooks did")
           \cup B(~deadlock /\ r.has /\ ev.jl # A.jl, "C05", "actor state in the result differs from the hooks that ran")
           \cup B(r.k = "panic" /\ ~deadlock /\ r.msg # "scripted", "C05", "unexpected panic payload")
           \cup B(mon.strict /\ A.killOld /\ r.k # "panic" /\ A.startOut = "ok" /\ ~A.runErr /\ ~r.killed,
                  "C06", "kill() had returned but the result says killed=false")
           \* C05 "killed=true exactly when a kill signal ended the actor": a kill() that had returned before the burst
           \* in which a running actor began to stop is the signal that ends it (the terminate branch has priority)
           \cup B(mon.strict /\ A.killOld /\ r.k # "panic" /\ A.startOut = "ok" /\ ~A.runErr /\ ~r.killed,
                  "C05", "a kill signal ended the actor but the result says killed=false")
           \cup B(r.k # "panic" /\ r.killed /\ ~A.killStarted, "C05", "result says killed=true although kill() was never called")
           \cup B(deadlock /\ ~mon.dd, "C15", "deadlock panic with detection disabled")
           \cup B(deadlock /\ ~cycOk, "C15", "deadlock panic without a cycle of unanswered in-flight asks")
      m1 == UpdA(mon, a, [joined |-> TRUE, joinedNow |-> mon.now, res |-> r.k, runOpen |-> FALSE, expectRun |-> FALSE,
                          nestOp |-> 0, tellPending |-> 0])
      \* the op whose first poll panicked never completes; it is not "must panic" any more
      m2 == IF A.nestOp # 0 THEN UpdO(m1, A.nestOp, [done |-> TRUE, mustPanic |-> FALSE]) ELSE m1
  IN  AddBad([m2 EXCEPT !.crashed = mon.crashed \/ r.k # "completed"], b)

OnAdvance(mon, ev) == [mon EXCEPT !.now = ev.now]

HK(mon, h) == IF Has(mon.hs, h) THEN mon.hs[h] ELSE [a |-> "", k |-> "none"]

OnClone(mon, ev) ==
  LET A == ActOf(mon, ev.a)
      m1 == [mon EXCEPT !.hs = Put(@, ev.h2, [a |-> ev.a, k |-> ev.k])]
  IN  IF ev.k = "s" THEN UpdA(m1, ev.a, [userStrong |-> A.userStrong + 1]) ELSE m1

OnDropH(mon, ev) ==
  LET A == ActOf(mon, ev.a)
      m1 == [mon EXCEPT !.hs = Put(@, ev.h, [a |-> ev.a, k |-> "dead"])]
  IN  IF ev.k = "s" THEN UpdA(m1, ev.a, [userStrong |-> A.userStrong - 1]) ELSE m1

OnErase(mon, ev) ==
  LET A == ActOf(mon, ev.a) IN
  IF ev.h2 = 0 THEN mon
  ELSE LET m1 == [mon EXCEPT !.hs = Put(@, ev.h2, [a |-> ev.a, k |-> ev.k])]
       IN  IF ev.k = "s" THEN UpdA(m1, ev.a, [userStrong |-> A.userStrong + 1]) ELSE m1

OnDown(mon, ev) == [mon EXCEPT !.hs = Put(@, ev.h2, [a |-> ev.a, k |-> "w"])]

OnUp(mon, ev) ==
  LET A == ActOf(mon, ev.a)
      b == B(~ev.ok /\ A.userStrong > 0, "C11", "upgrade failed while a strong reference exists")
           \cup B(mon.strict /\ ev.ok # (A.lastStrong > 0), "C11", "upgrade disagrees with the existence of strong references")
  IN  IF ev.ok
        THEN AddBad(UpdA([mon EXCEPT !.hs = Put(@, ev.h2, [a |-> ev.a, k |-> "s"])], ev.a,
                         [userStrong |-> A.userStrong + 1]), b)
        ELSE AddBad(mon, b)

OnAlive(mon, ev) ==
  LET A == ActOf(mon, ev.a)
      b == IF ev.k = "s"
             THEN B(~ev.val /\ Running(A), "C11", "is_alive() false on a running actor")
                  \cup B(ev.val /\ A.joined, "C11", "is_alive() true after the actor ended")
             ELSE B(~ev.val /\ A.userStrong > 0, "C11", "weak is_alive() false while a strong reference exists")
                  \cup B(mon.strict /\ ev.val # (A.lastStrong > 0), "C11", "weak is_alive() disagrees with strong references")
  IN  AddBad(mon, b)

OnIdent(mon, ev) ==
  AddBad(mon, B(ev.id # ActOf(mon, ev.a).id, "C11", "handle reports a different identity"))

OnSample(mon, ev) ==
  LET a == ev.a  A == ActOf(mon, a)
      occ == Cardinality(Untaken(mon, a))
      live == ~A.joined
      b == B(ev.strong > 0 /\ ev.max # A.cap, "C09", "mailbox capacity differs from the requested one")
           \cup B(ev.avail > ev.max, "C09", "more free slots than capacity")
           \cup B(live /\ occ > A.cap, "C09", "more accepted, untaken messages than capacity")
           \cup B(mon.strict /\ live /\ ev.strong > 0 /\ ev.avail + occ > ev.max /\ ev.max = A.cap,
                  "C09", "accepted messages do not occupy slots")
           \cup B(ev.dlc >= 0 /\ ev.dlc # mon.dlCount, "C13", "dead-letter counter differs from the number of dead letters")
           \cup B(ev.strong < A.userStrong, "C07", "fewer strong references than live strong handles")
           \* C20: message_count = handlers entered, minus the one still running
           \cup B(ev.mcnt >= 0 /\ (ev.mcnt > Len(A.order) \/ ev.mcnt < A.hdone), "C20", "message_count differs from the number of handled messages")
           \cup B(ev.mcnt >= 0 /\ ev.mcnt < A.lastCnt, "C20", "message_count decreased")
  IN  AddBad(UpdA(mon, a, [lastMax |-> ev.max, lastAvail |-> ev.avail, lastStrong |-> ev.strong,
                           lastCnt |-> IF ev.mcnt >= 0 THEN ev.mcnt ELSE A.lastCnt]), b)

OnQuiescent(mon, ev) ==
  LET pend == RangeOf(ev.pending)
      unj  == RangeOf(ev.unjoined)
      b1 == UNION {B(OpOf(mon, o).kind \in AskKindsM /\ ActOf(mon, OpOf(mon, o).a).joined,
                     "C03", "ask still pending although its actor has ended") : o \in pend}
      b2 == UNION {B(OpOf(mon, o).kind \in TimedKindsM /\ OpOf(mon, o).armed /\ mon.now >= OpOf(mon, o).stNow + OpOf(mon, o).d,
                     "C10", "timed op still pending past its deadline") : o \in pend}
      b3 == UNION {LET A == ActOf(mon, a) IN
                   B(A.startOut = "ok" /\ (A.stopRet \/ A.userStrong = 0 \/ A.killArmed) /\ A.nestOp = 0
                     /\ ~\E o \in pend : OpOf(mon, o).own = a,
                     "C07", "actor still running although stopped, killed or unreferenced") : a \in unj}
      \* an ask cycle must have been refused by a panic, so none can be in place when nothing moves
      b4 == B(mon.dd /\ \E a \in DOMAIN mon.act : Reaches(mon, a, a, Cardinality(DOMAIN mon.act) + 1),
              "C14", "a cycle of unanswered asks is in place at quiescence")
      b5 == B(mon.dd /\ ev.wf # <<>> /\ ~\E o \in pend : Has(mon.act, OpOf(mon, o).own) /\ OpOf(mon, o).kind \in AskKindsM,
              "C15", "wait-for graph not empty although no ask is in flight")
      b6 == UNION {B(mon.act[a].expectRun /\ ~mon.act[a].joined, "C08", "on_run not polled again after Ok(true)")
                   : a \in DOMAIN mon.act}
      b7 == UNION {B(OpOf(mon, o).pair # 0 /\ \E o2 \in DOMAIN mon.ops : mon.ops[o2].pair = OpOf(mon, o).pair /\ mon.ops[o2].done,
                     "C16", "one call of a wrapper / ActorRef pair is still pending although the other has returned") : o \in pend}
  IN  AddBad(mon, b1 \cup b2 \cup b3 \cup b4 \cup b5 \cup b6 \cup b7)

SlowUs == 3000   \* a handler told to be slow holds its thread for at least this long (wall clock, microseconds)
VerySlowUs == 1100000

\* C20: metrics read through a handle at quiescence
OnMetrics(mon, ev) ==
  LET A == ActOf(mon, ev.a)
      b == B(A.inHook # "handler" /\ ev.cnt # Len(A.order), "C20", "message_count differs from the number of handled messages")
           \cup B(ev.avg > ev.max, "C20", "avg_processing_time exceeds max_processing_time")
           \cup B(A.slowDone /\ ev.max < SlowUs, "C20", "max_processing_time below the time a handler demonstrably took")
           \cup B(A.verySlowDone /\ ev.max < VerySlowUs, "C20", "max_processing_time below the time a handler demonstrably took")
           \cup B(A.verySlowDone /\ ev.cnt > 0 /\ ev.avg * ev.cnt < VerySlowUs - 2 * ev.cnt, "C20", "total processing time below the time one handler demonstrably took")
           \cup B(ev.cnt # ev.scnt \/ ev.avg # ev.savg \/ ev.max # ev.smax, "C20", "snapshot disagrees with the accessors")
           \cup B(ev.cnt = 0 /\ (ev.avg # 0 \/ ev.max # 0), "C20", "processing times without messages")
  IN  AddBad(mon, b)

MonStep(mon, ev) ==
  CASE ev.e = "Reset"      -> OnReset(mon, ev)
    [] ev.e = "Cmd"        -> OnCmd(mon, ev)
    [] ev.e = "Spawn"      -> OnSpawn(mon, ev)
    [] ev.e = "OpStart"    -> OnOpStart(mon, ev)
    [] ev.e = "OpPending"  -> OnOpPending(mon, ev)
    [] ev.e = "OpEnd"      -> OnOpEnd(mon, ev)
    [] ev.e = "HEnter"     -> OnHEnter(mon, ev)
    [] ev.e = "HExit"      -> OnHExit(mon, ev)
    [] ev.e = "TellResult" -> OnTellResult(mon, ev)
    [] ev.e = "RunPoll"    -> OnRunPoll(mon, ev)
    [] ev.e = "RunEnd"     -> OnRunEnd(mon, ev)
    [] ev.e = "RunDrop"    -> OnRunDrop(mon, ev)
    [] ev.e = "DeadLetter" -> OnDeadLetter(mon, ev)
    [] ev.e = "Joined"     -> OnJoined(mon, ev)
    [] ev.e = "Advance"    -> OnAdvance(mon, ev)
    [] ev.e = "Clone"      -> OnClone(mon, ev)
    [] ev.e = "DropH"      -> OnDropH(mon, ev)
    [] ev.e = "Down"       -> OnDown(mon, ev)
    [] ev.e = "Erase"      -> OnErase(mon, ev)
    [] ev.e = "Up"         -> OnUp(mon, ev)
    [] ev.e = "Alive"      -> OnAlive(mon, ev)
    [] ev.e = "Ident"      -> OnIdent(mon, ev)
    [] ev.e = "Sample"     -> OnSample(mon, ev)
    [] ev.e = "Quiescent"  -> OnQuiescent(mon, ev)
    [] ev.e = "Metrics"    -> OnMetrics(mon, ev)
    [] ev.e = "TaskEnd"    -> UpdM(mon, ev.m, [tout |-> ev.out])
    \* first poll of a future created earlier: its timeout starts counting now
    [] ev.e = "OpArm"      -> UpdO(mon, ev.op, [stNow |-> ev.now, armed |-> TRUE])
    [] OTHER               -> mon      \* Inapplicable, ErrLog, ...

RECURSIVE MonFold(_, _)
MonFold(mon, evs) == IF evs = <<>> THEN mon ELSE MonFold(MonStep(mon, Head(evs)), Tail(evs))

Holds(mon, p) == ~\E b \in mon.bad : b[1] = p
InvC01(mon) == Holds(mon, "C01")
InvC02(mon) == Holds(mon, "C02")
InvC03(mon) == Holds(mon, "C03")
InvC04(mon) == Holds(mon, "C04")
InvC05(mon) == Holds(mon, "C05")
InvC06(mon) == Holds(mon, "C06")
InvC07(mon) == Holds(mon, "C07")
InvC08(mon) == Holds(mon, "C08")
InvC09(mon) == Holds(mon, "C09")
InvC10(mon) == Holds(mon, "C10")
InvC11(mon) == Holds(mon, "C11")
\* C12: a failing actor fails alone -- in every run in which some actor crashed, every other
\* property keeps holding for everybody, and the process-wide state stays consistent
InvC12(mon) == mon.crashed => mon.bad = {}
InvC13(mon) == Holds(mon, "C13")
InvC14(mon) == Holds(mon, "C14")
InvC15(mon) == Holds(mon, "C15")
InvC16(mon) == Holds(mon, "C16")
InvC17(mon) == Holds(mon, "C17")
InvC19(mon) == Holds(mon, "C19")
InvC20(mon) == Holds(mon, "C20")
InvAll(mon) == mon.bad = {}
=============================================================================
