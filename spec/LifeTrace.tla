------------------------------ MODULE LifeTrace ------------------------------
(***************************************************************************)
(* Implementation -> specification trace validation of the lifecycle, with *)
(* the REPOSITORY'S OWN TEST SUITE as the driver.                          *)
(*                                                                         *)
(* The hooks (`--cfg rsactor_verif`, active when RSACTOR_VERIF_TRACE names  *)
(* a file) log one line per lifecycle event of every actor of every test:   *)
(*   Spawn(cap) StartEnter StartExit(0 ok | 1 err) HandlerEnter HandlerExit  *)
(*   RunEnter RunEnd(0 Ok(true) | 1 Ok(false) | 2 Err) StopEnter(0 false |   *)
(*   1 true | 2 flag not known at the hook) StopExit(0|1) <Hook>Unwind (the   *)
(*   hook panicked) <Hook>Drop (its future was dropped unfinished) KillStart  *)
(*   KillDone Result(kind*10+phase, killed)                                  *)
(* numbered by a process-wide ticket taken under the lock that orders the    *)
(* writes.  The per-actor state machine below is the lifecycle of            *)
(* RsActor.tla (pc = Init/Start/Handler/Run/Stop/Done) seen through those    *)
(* events.  The tests give no message identities, so only lifecycle rules    *)
(* (C04 C05 C06 C08 C11 C12) are evaluated.                                  *)
(*                                                                         *)
(* Every rule is conditional on events that WERE seen ("X happened although  *)
(* Y had happened"); none demands that an event be present.  A refactoring   *)
(* that moves a hook call out of the instrumented macros therefore makes     *)
(* this check blind, never wrong.                                            *)
(***************************************************************************)
EXTENDS Naturals, Integers, Sequences, FiniteSets, TLC, Json, IOUtils

Rec == ndJsonDeserialize(IOEnv.TRACE)

NoA == [seen |-> FALSE, startN |-> 0, startExit |-> -1, inHandler |-> FALSE, handlers |-> 0,
        runOk |-> FALSE, runDisabled |-> FALSE, runErr |-> FALSE,
        stopN |-> 0, stopFlag |-> -1, stopExit |-> -1, unwound |-> FALSE,
        killStart |-> FALSE, killDone |-> FALSE, afterKill |-> 0, result |-> -1]

VARIABLES l, act, nbad
vars == <<l, act, nbad>>

Key(ev) == <<ev.pid, ev.id>>
Has(f, k) == k \in DOMAIN f
Get(k) == IF Has(act, k) THEN act[k] ELSE NoA

B(c, p, why) == IF c THEN {<<p, why>>} ELSE {}

Init == l = 1 /\ act = <<>> /\ nbad = 0

Running(A) == A.startExit = 0 /\ A.stopN = 0 /\ A.result < 0 /\ ~A.unwound

Step(A, ev) ==
  LET e == ev.e  x == ev.x IN
  CASE e = "Spawn" ->
         [a |-> [A EXCEPT !.seen = TRUE], b |-> B(A.seen, "C11", "two actors of one process share an id")]
    [] e = "StartEnter" ->
         [a |-> [A EXCEPT !.startN = @ + 1],
          b |-> B(A.startN > 0, "C04", "on_start entered twice")
                \cup B(A.handlers > 0 \/ A.runOk \/ A.runErr \/ A.runDisabled \/ A.stopN > 0, "C04", "on_start entered after another hook")]
    [] e = "StartExit" -> [a |-> [A EXCEPT !.startExit = x], b |-> {}]
    [] e = "StartUnwind" -> [a |-> [A EXCEPT !.unwound = TRUE], b |-> {}]
    [] e = "HandlerEnter" ->
         [a |-> [A EXCEPT !.inHandler = TRUE, !.handlers = @ + 1,
                          !.afterKill = IF A.killDone THEN @ + 1 ELSE @],
          b |-> B(A.startExit # 0, "C04", "handler entered before on_start had returned Ok")
                \cup B(A.stopN > 0, "C04", "handler entered after on_stop had begun")
                \cup B(A.inHandler, "C04", "handler entered while another handler was running")
                \cup B(A.result >= 0, "C04", "handler entered after the actor had ended")
                \cup B(A.unwound, "C12", "handler entered after a hook of this actor had panicked")
                \cup B(A.runErr, "C08", "handler entered after on_run had returned Err")
                \cup B(A.killDone /\ A.afterKill >= 1, "C06", "more than one handler started after kill() returned")]
    [] e = "HandlerExit" -> [a |-> [A EXCEPT !.inHandler = FALSE], b |-> {}]
    [] e = "HandlerUnwind" -> [a |-> [A EXCEPT !.inHandler = FALSE, !.unwound = TRUE], b |-> {}]
    [] e = "RunEnter" ->          \* first poll of a new on_run invocation
         [a |-> A,
          b |-> B(A.startExit # 0, "C04", "on_run started before on_start had returned Ok")
                \cup B(A.stopN > 0, "C04", "on_run started after on_stop had begun")
                \cup B(A.inHandler, "C08", "on_run started while a handler was running")
                \cup B(A.runDisabled, "C08", "on_run started again after it had returned Ok(false)")
                \cup B(A.runErr, "C08", "on_run started again after it had returned Err")
                \cup B(A.unwound, "C12", "on_run started after a hook of this actor had panicked")
                \cup B(A.result >= 0, "C04", "on_run started after the actor had ended")]
    [] e = "RunDrop" -> [a |-> A, b |-> {}]          \* another select branch won
    [] e = "RunUnwind" -> [a |-> [A EXCEPT !.unwound = TRUE], b |-> {}]
    [] e = "HandlerDrop" -> [a |-> [A EXCEPT !.inHandler = FALSE], b |-> {}]
    [] e = "StopDrop" -> [a |-> A, b |-> B(TRUE, "C04", "an on_stop in progress was abandoned")]
    [] e = "StartDrop" -> [a |-> A, b |-> {}]
    [] e = "RunEnd" ->
         [a |-> [A EXCEPT !.runOk = (@ \/ x = 0), !.runDisabled = (@ \/ x = 1), !.runErr = (@ \/ x = 2)],
          b |-> B(A.startExit # 0, "C04", "on_run completed before on_start had returned Ok")
                \cup B(A.stopN > 0, "C04", "on_run completed after on_stop had begun")
                \cup B(A.inHandler, "C08", "on_run completed while a handler was running")
                \cup B(A.runDisabled, "C08", "on_run ran again after it had returned Ok(false)")
                \cup B(A.runErr, "C08", "on_run ran again after it had returned Err")
                \cup B(A.result >= 0, "C04", "on_run completed after the actor had ended")]
    [] e = "StopEnter" ->
         [a |-> [A EXCEPT !.stopN = @ + 1, !.stopFlag = x],
          b |-> B(A.stopN > 0, "C04", "on_stop entered twice")
                \cup B(A.startExit = 1, "C04", "on_stop entered after on_start had failed")
                \cup B(A.inHandler, "C04", "on_stop entered while a handler was running")
                \cup B(A.unwound, "C12", "on_stop entered after a hook of this actor had panicked")
                \cup B(A.result >= 0, "C04", "on_stop entered after the actor had ended")
                \cup B(x = 1 /\ ~A.killStart, "C06", "on_stop(killed = true) without any kill()")
                \cup B(x = 1 /\ A.runErr, "C08", "on_stop(killed = true) after on_run had returned Err")]
    [] e = "StopExit" -> [a |-> [A EXCEPT !.stopExit = x], b |-> {}]
    [] e = "StopUnwind" -> [a |-> [A EXCEPT !.unwound = TRUE], b |-> {}]
    [] e = "KillStart" -> [a |-> [A EXCEPT !.killStart = TRUE], b |-> {}]
    [] e = "KillDone" -> [a |-> [A EXCEPT !.killDone = TRUE], b |-> {}]
    [] e = "Result" ->
         LET kind == x \div 10  phase == x % 10  killed == ev.y = 1 IN
         [a |-> [A EXCEPT !.result = x],
          b |-> B(A.result >= 0, "C05", "two results for one actor")
                \cup B(A.unwound, "C12", "a result although a hook of this actor had panicked")
                \cup B(killed /\ ~A.killStart, "C05", "killed = true although nobody called kill()")
                \cup B(kind = 0 /\ (A.startExit = 1 \/ A.runErr \/ A.stopExit = 1), "C05", "Completed although a hook had returned Err")
                \cup B(phase = 1 /\ (A.startExit = 0 \/ A.handlers > 0 \/ A.stopN > 0), "C05", "Failed(OnStart) although on_start had returned Ok")
                \cup B(phase = 2 /\ A.stopExit = 1, "C05", "Failed(OnRun) although on_stop had failed too")
                \cup B(phase \in {3, 4} /\ A.stopExit = 0, "C05", "an on_stop failure reported although on_stop had returned Ok")
                \cup B(phase = 3 /\ A.runErr, "C05", "Failed(OnStop) although on_run had failed first")
                \cup B(kind = 1 /\ phase # 1 /\ A.startExit = 1, "C05", "on_start failed but the result names another phase")
                \cup B(A.stopFlag \in {0, 1} /\ phase \in {0, 3} /\ killed # (A.stopFlag = 1), "C05", "killed differs from the flag on_stop received")
                \cup B(A.inHandler, "C04", "the actor ended while a handler was running")]
    [] OTHER -> [a |-> A, b |-> {}]

Next ==
  /\ l <= Len(Rec)
  /\ LET ev == Rec[l]
         k == Key(ev)
         r == Step(Get(k), ev)
     IN  /\ act' = (k :> r.a) @@ act
         /\ nbad' = nbad + Cardinality(r.b)
         /\ (r.b # {} => PrintT(ToString(<<"LIFEBAD", ev.pid, ev.id, l, r.b>>)))
  /\ l' = l + 1

Spec == Init /\ [][Next]_vars

Consumed ==
  \/ /\ TLCGet("stats").diameter - 1 = Len(Rec)
     /\ PrintT(ToString(<<"LIFECHECKED", Len(Rec)>>))
  \/ PrintT(ToString(<<"UNCONSUMED", TLCGet("stats").diameter, Len(Rec)>>)) /\ FALSE
=============================================================================
