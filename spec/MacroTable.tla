----------------------------- MODULE MacroTable -----------------------------
(***************************************************************************)
(* C19: the documented decision table of #[message_handlers] / #[handler]  *)
(* and #[derive(Actor)] as a TLA+ function.  TLC enumerates the grammar     *)
(* (mode "gen": one row per generated program), a generator turns the rows  *)
(* into a corpus crate compiled against the real macros, and TLC validates  *)
(* what the compiler and the running programs did (mode "check").           *)
(***************************************************************************)
EXTENDS Naturals, Sequences, FiniteSets, TLC, Json, IOUtils

\* return-type spelling of the handler method
Rets == {"none",          \* no return type
         "unit",          \* -> ()
         "u32",           \* -> u32
         "result",        \* -> Result<u32, CorpErr>
         "std_result",    \* -> std::result::Result<u32, CorpErr>
         "path_result",   \* -> crate::support::Result<u32>      (any path whose last segment is `Result`)
         "alias",         \* -> Outcome   where  type Outcome = Result<u32, CorpErr>   (not recognisable syntactically)
         "bare_result",   \* -> self::bare::Result   where  type Result = Result<u32, CorpErr>  (last segment `Result`, no arguments:
                          \*                           the std::fmt::Result / io::Result style)
         "option",        \* -> Option<u32>
         "opt_result",    \* -> Option<Result<u32, CorpErr>>      (a Result nested in something else is not a Result)
         "tuple_result"}  \* -> (Result<u32, CorpErr>, u32)
\* attribute spelling
Attrs == {"plain",        \* #[handler]
          "result",       \* #[handler(result)]
          "no_log",       \* #[handler(no_log)]
          "both",         \* #[handler(result, no_log)]   -> compile error
          "unknown"}      \* #[handler(bogus)]            -> compile error
\* shape of the actor type carrying #[derive(Actor)]
Shapes == {"struct", "tuple", "unit", "enum", "generic", "generic_where"}
\* message type: a plain struct or an instance of a generic struct
MsgGens == {"plain", "generic", "path", "mutbind"}   \* M / M<u8> / self::M / `mut msg: M`
\* a second, non-handler method in the same impl block (must be left alone)
Extras == {FALSE, TRUE}

\* another handler (for another message type, returning Result<u32, CorpErr>) placed BEFORE the one under test in the
\* same impl block, with this attribute: the attribute options of one handler must not leak into the next
Prevs == {"none", "plain", "no_log", "result"}

Rows == [ret : Rets, attr : Attrs, shape : Shapes, msg : MsgGens, extra : Extras, prev : Prevs]

ResultSyntax(r) == r.ret \in {"result", "std_result", "path_result", "bare_result"}
CanErr(r)       == r.ret \in {"result", "std_result", "path_result", "alias", "bare_result"}

Compiles(r) ==
  /\ r.attr \notin {"both", "unknown"}
  /\ ~(r.attr = "result" /\ ~CanErr(r))     \* forcing Result logging on a non-Result type cannot type-check
                                            \* (for `none` the macro itself refuses)

\* does the generated Message impl log Err values returned to a tell?
Logs(r) == Compiles(r) /\ r.attr # "no_log" /\ (r.attr = "result" \/ ResultSyntax(r))

Expect(r) ==
  [compiles  |-> Compiles(r),
   \* Reply = the method's return type and handle() = the method: the ask returns the method's value
   ask_ok    |-> Compiles(r),
   ask_err   |-> Compiles(r) /\ CanErr(r),          \* an Err produced by the method comes back as that Err
   \* error events: exactly one after a tell whose handler returned Err and whose impl logs; none otherwise
   log_tell_err |-> IF Logs(r) /\ CanErr(r) THEN 1 ELSE 0,
   log_tell_ok  |-> 0,
   log_ask_err  |-> 0,
   log_ask_ok   |-> 0,
   \* #[derive(Actor)]: on_start(v) = Ok(v), Error = Infallible
   start_same |-> Compiles(r),
   \* the non-handler method is still callable and no Message impl was generated for it
   extra_ok  |-> Compiles(r)]

\* quick subset: every return type x attribute once, plus every shape / message form for the common case
QuickRows == {r \in Rows : \/ (r.shape = "struct" /\ r.msg = "plain" /\ ~r.extra /\ r.prev = "none")
                            \/ (r.ret = "result" /\ r.attr = "plain" /\ r.prev = "none")
                            \/ (r.ret = "alias" /\ r.attr = "result" /\ r.msg = "generic" /\ r.prev = "none")
                            \/ (r.attr = "plain" /\ r.ret \in {"result", "u32"} /\ ~r.extra /\ r.prev = "none"
                                  /\ (r.shape = "generic_where" \/ r.msg \in {"path", "mutbind"}))
                            \/ (r.shape = "struct" /\ r.msg = "plain" /\ ~r.extra /\ r.prev # "none"
                                  /\ r.ret \in {"result", "alias", "u32"} /\ r.attr \in {"plain", "result", "no_log"})}

Mode == IOEnv.LAWMODE
Rec  == IF Mode = "check" THEN ndJsonDeserialize(IOEnv.TRACE) ELSE <<>>

Gen == PrintT(<<"ROWS", ToJson(IF IOEnv.ROWSET = "all" THEN Rows ELSE QuickRows)>>)

Check ==
  /\ \A i \in 1..Len(Rec) :
        LET r == Rec[i]  e == Expect(r.row) IN
        \/ /\ r.row \in Rows
           /\ r.obs.compiles = e.compiles
           /\ (e.compiles => r.obs = e)
        \/ PrintT(ToString(<<"ROWBAD", i, r.row, r.obs, e>>))
  /\ PrintT(ToString(<<"ROWSCHECKED", Len(Rec), Cardinality({Rec[i].row : i \in 1..Len(Rec)})>>))

ASSUME IF Mode = "gen" THEN Gen ELSE Check
=============================================================================
