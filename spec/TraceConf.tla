----------------------------- MODULE TraceConf -----------------------------
(***************************************************************************)
(* Implementation -> specification conformance: is a trace recorded from   *)
(* the real code (cooperative replay harness) a behaviour of RsActor.tla?   *)
(*                                                                         *)
(* The trace consists of Cmd events (the driver command that was executed)  *)
(* each followed by the events the code produced.  For every command TLC    *)
(* computes Do(st, cmd) and compares the model's events with the recorded   *)
(* ones.  This covers the whole trace, including the commands the harness   *)
(* issued on its own after the scheduled ones (the run to quiescence) and    *)
(* hand-written scenarios, for which no prediction exists beforehand.        *)
(* A mismatch is reported as a DRIFT line (model drift, not a property       *)
(* violation); the rest of that run is skipped.                             *)
(***************************************************************************)
EXTENDS RsActor, Json, IOUtils

Rec == ndJsonDeserialize(IOEnv.TRACE)

VARIABLES l, run, st, skip, nd     \* nd = drifts reported so far (only the first few are printed in full)
vars == <<l, run, st, skip, nd>>

Init == l = 1 /\ run = 0 /\ st = InitState /\ skip = FALSE /\ nd = 0

Report(x, short) == IF nd < 25 THEN PrintT(ToString(x)) ELSE PrintT(ToString(short))

\* index of the first Cmd / Reset event after position i (or Len+1)
RECURSIVE NextBoundary(_)
NextBoundary(i) == IF i > Len(Rec) THEN i
                   ELSE IF Rec[i].e \in {"Cmd", "Reset"} THEN i ELSE NextBoundary(i + 1)

Obs(i, j) == SelectSeq(SubSeq(Rec, i, j), LAMBDA e : e.e # "Metrics")

Has(r, f) == f \in DOMAIN r

\* recorded event o matches predicted event e (fields the model does not predict are ignored;
\* -1 in a counter means "feature not compiled in")
SameEv(e, o) ==
  /\ e.e = o.e
  /\ IF e.e = "Sample"
       THEN /\ e.a = o.a /\ e.max = o.max /\ e.avail = o.avail /\ e.strong = o.strong
            /\ (o.dlc >= 0 => o.dlc = e.dlc)
            /\ (o.mcnt >= 0 => o.mcnt = e.mcnt)
     ELSE IF e.e = "Quiescent"
       THEN e.pending = o.pending /\ e.unjoined = o.unjoined /\ e.now = o.now
     ELSE \A f \in DOMAIN e : Has(o, f) /\ o[f] = e[f]

SameEvs(es, os) == Len(es) = Len(os) /\ \A i \in 1..Len(es) : SameEv(es[i], os[i])

\* the command as the model knows it (the harness marks its own commands with tail = TRUE)
ModelCmd(c) == [f \in (DOMAIN c) \ {"tail"} |-> c[f]]
IsTail(c) == Has(c, "tail")

OnlySamples(os) == \A i \in 1..Len(os) : os[i].e = "Sample"

Step ==
  /\ l <= Len(Rec)
  /\ LET ev == Rec[l] IN
     IF ev.e = "Reset" THEN
          /\ st' = InitState /\ run' = ev.run /\ skip' = FALSE /\ l' = l + 1 /\ nd' = nd
     ELSE IF ev.e # "Cmd" \/ skip THEN
          /\ UNCHANGED <<st, run, skip, nd>> /\ l' = NextBoundary(l + 1)
     ELSE
          LET nb  == NextBoundary(l + 1)
              obs == Obs(l + 1, nb - 1)
              cmd == ModelCmd(ev.cmd)
              en  == CmdEnabled(st, cmd) = TRUE
          IN  /\ l' = nb /\ run' = run
              /\ IF en THEN
                      LET r == Do(st, cmd) IN
                      \* (the harness may go on after the model's quiesce when the code is still busy)
                      IF SameEvs(r.evs, obs) THEN st' = [r.s EXCEPT !.q = FALSE] /\ skip' = FALSE /\ nd' = nd
                      ELSE /\ Report(<<"DRIFT", run, l, cmd, "model:", r.evs, "code:", obs>>, <<"DRIFT", run, l, cmd>>)
                           /\ skip' = TRUE /\ st' = st /\ nd' = nd + 1
                 ELSE IF IsTail(ev.cmd) /\ OnlySamples(obs) THEN
                      \* the harness tried a command that cannot do anything; nothing happened
                      st' = st /\ skip' = FALSE /\ nd' = nd
                 ELSE /\ Report(<<"DRIFT", run, l, cmd, "command not enabled in the model; code:", obs>>, <<"DRIFT", run, l, cmd>>)
                      /\ skip' = TRUE /\ st' = st /\ nd' = nd + 1

Next == Step /\ (l' > Len(Rec) => PrintT(ToString(<<"CONFDONE", Len(Rec)>>)))

Spec == Init /\ [][Next]_vars
=============================================================================
