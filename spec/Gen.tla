-------------------------------- MODULE Gen --------------------------------
(* Behaviour generator: RsActor's Do() with a history variable `sched` holding, per step,  *)
(* the driver command and the events the model predicts for it.  One JSON line is printed  *)
(* per finished behaviour; the harness replays it into the real code.                      *)
EXTENDS RsActor, Json

CONSTANT Depth        \* behaviours are cut (and printed) at this length

VARIABLES st, sched
vars == <<st, sched>>

Init == st = InitState /\ sched = <<>>

Apply(cmd) ==
  /\ CmdEnabled(st, cmd) = TRUE   \* value-level evaluation (short-circuit \/), not action-level
  /\ Len(sched) < Depth
  /\ LET r == Do(st, cmd) IN
     /\ st' = r.s
     /\ sched' = Append(sched, [cmd |-> cmd, evs |-> r.evs])

Spawn    == \E cmd \in SpawnCmds   : Apply(cmd)
Start    == \E cmd \in StartCmds   : Apply(cmd)
PollC    == \E cmd \in PollCmds    : Apply(cmd)
Burst    == \E cmd \in BurstCmds   : Apply(cmd)
Nest     == \E cmd \in NestCmds    : Apply(cmd)
Advance  == \E cmd \in AdvanceCmds : Apply(cmd)
HandleOp == \E cmd \in HandleCmds  : Apply(cmd)
Erase    == \E cmd \in EraseCmds   : Apply(cmd)
Bg       == \E cmd \in BgCmds      : Apply(cmd)
Task     == \E cmd \in TaskCmds    : Apply(cmd)
Arm      == \E cmd \in ArmCmds     : Apply(cmd)
Create   == \E cmd \in CreateCmds  : Apply(cmd)
Quiesce  == Apply(QuiesceCmd)

Next == Spawn \/ Start \/ PollC \/ Burst \/ Nest \/ Advance \/ HandleOp \/ Erase \/ Bg \/ Task \/ Arm \/ Create \/ Quiesce

Spec == Init /\ [][Next]_vars

Finished == st.q \/ Len(sched) >= Depth

\* "invariant" with a side effect: print each finished behaviour once
Emit == Finished => PrintT(<<"SCHED", ToJson(sched)>>)
=============================================================================
