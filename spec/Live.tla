-------------------------------- MODULE Live --------------------------------
(* Liveness of the model under fairness (no state constraint): the temporal halves of C03 and  *)
(* C07.  Weak fairness on actor bursts = "the hook currently running finishes and the task is    *)
(* polled when woken"; weak fairness on client polls = "a caller whose future is woken polls it".*)
EXTENDS RsActor

VARIABLES st
vars == <<st>>

Init == st = InitState

Apply(cmd) == CmdEnabled(st, cmd) = TRUE /\ st' = Do(st, cmd).s

Spawn    == \E cmd \in SpawnCmds   : Apply(cmd)
Start    == \E cmd \in StartCmds   : Apply(cmd)
PollC    == \E cmd \in PollCmds    : Apply(cmd)
Burst    == \E cmd \in BurstCmds   : Apply(cmd)
Advance  == \E cmd \in AdvanceCmds : Apply(cmd)
HandleOp == \E cmd \in HandleCmds  : Apply(cmd)
Task     == \E cmd \in TaskCmds    : Apply(cmd)       \* a task spawned by an ask_join handler ends (value or panic)

Next == Spawn \/ Start \/ PollC \/ Burst \/ Advance \/ HandleOp \/ Task

\* per-actor / per-client fairness, so that one busy party cannot starve another
BurstOf(a) == \E cmd \in BurstCmds : cmd.a = a /\ Apply(cmd)
PollOf(c)  == Apply([c |-> "poll", cl |-> c])

Fairness == /\ \A a \in Actors : WF_vars(BurstOf(a))
            /\ \A c \in Clients : WF_vars(PollOf(c))
            /\ WF_vars(Advance)
            /\ WF_vars(Task)                   \* every spawned task ends

Spec == Init /\ [][Next]_vars /\ Fairness

Pending(o) == st.O[o].ph \in {"wait", "granted", "reply", "join"}

\* C03: every ask completes once its actor has ended (and, in fact, every ask on a fair system)
AskCompletes ==
  \A o \in OpIds : (Pending(o) /\ st.O[o].kind \in AskKinds /\ st.A[st.O[o].a].pc = "Done") ~> ~Pending(o)

\* C03, ask_join: it returns once the spawned task has ended -- whatever has become of the actor meanwhile
AskJoinCompletes ==
  \A o \in OpIds : (st.O[o].ph = "join") ~> ~Pending(o)

\* C07: an accepted stop(), or the disappearance of the last strong reference, leads to the end of the actor
StopLeadsToEnd ==
  \A a \in Actors :
    (st.A[a].sp /\ st.A[a].pc # "Init"
       /\ (\E i \in 1..Len(st.A[a].mbox) : st.O[st.A[a].mbox[i]].kind = "stop")) ~> (st.A[a].pc = "Done")
UnreferencedLeadsToEnd ==
  \A a \in Actors : (st.A[a].sp /\ st.A[a].pc # "Init" /\ Strong(st, a) = 0) ~> (st.A[a].pc = "Done")

\* C06: a delivered kill leads to the end of the actor
KillLeadsToEnd ==
  \A a \in Actors : (st.A[a].sp /\ st.A[a].pc # "Init" /\ st.A[a].term) ~> (st.A[a].pc = "Done")
=============================================================================
