----------------------------- MODULE IdsUnique -----------------------------
(* C11: no two actors in a process ever share an id, however concurrently they are spawned. *)
(* The harness spawns actors from many threads at once and records the ids each thread got; *)
(* TLC checks that all of them are pairwise distinct.                                       *)
EXTENDS Naturals, Sequences, FiniteSets, TLC, Json, IOUtils

Rec == ndJsonDeserialize(IOEnv.TRACE)
IdsOf(r) == {r.ids[i] : i \in 1..Len(r.ids)}
Total == LET RECURSIVE S(_) S(i) == IF i = 0 THEN 0 ELSE Len(Rec[i].ids) + S(i - 1) IN S(Len(Rec))
All == UNION {IdsOf(Rec[i]) : i \in 1..Len(Rec)}

Check ==
  /\ \/ Cardinality(All) = Total
     \/ PrintT(ToString(<<"IDSBAD", Total, Cardinality(All)>>))
  /\ PrintT(ToString(<<"IDSCHECKED", Len(Rec), Total>>))
ASSUME Check
=============================================================================
