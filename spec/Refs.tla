-------------------------------- MODULE Refs --------------------------------
(***************************************************************************)
(* Fine-grained model of the reference operations on an ActorRef, which is  *)
(* a PAIR of tokio senders (mailbox, terminate) cloned, dropped and          *)
(* upgraded one after the other (actor_ref.rs:1008-1019, 1067-1079, field    *)
(* drop order).  RsActor.tla treats clone / drop / upgrade as atomic; here   *)
(* each touches the two counters in two separate steps and several threads   *)
(* interleave.  The actor loop observes "the terminate channel has no        *)
(* sender" or "the mailbox has no sender" and then stops gracefully.          *)
(*                                                                         *)
(* Checked: the loop never observes a closed channel while a COMPLETE strong *)
(* reference exists or can still come into existence (C07, negative side);   *)
(* upgrade() returns a reference exactly when it managed to take both halves *)
(* (C11); when every thread is done the counters equal the references held   *)
(* (no leaked half, C07 positive side).                                      *)
(***************************************************************************)
EXTENDS Naturals, FiniteSets, TLC

CONSTANTS Threads, MaxRefs      \* each thread performs a short program on its own references

VARIABLES
  mb, tm,        \* strong counts of the mailbox / terminate channel
  held,          \* held[t] = number of complete strong references thread t owns
  weak,          \* weak[t] = TRUE iff thread t owns a weak reference
  pc,            \* "idle" | "drop2" | "clone2" | "up2" | "upfail"
  seen           \* what the actor loop has observed: "open" | "closed"

vars == <<mb, tm, held, weak, pc, seen>>

Init ==
  /\ \E t0 \in Threads :
       /\ held = [t \in Threads |-> IF t = t0 THEN 1 ELSE 0]
       /\ weak = [t \in Threads |-> t # t0]          \* the others start with a weak reference
  /\ mb = 1 /\ tm = 1
  /\ pc = [t \in Threads |-> "idle"]
  /\ seen = "open"

\* ---- drop(ActorRef): fields are dropped in declaration order: mailbox sender, then terminate sender
Drop1(t) == /\ pc[t] = "idle" /\ held[t] > 0
            /\ mb' = mb - 1 /\ pc' = [pc EXCEPT ![t] = "drop2"]
            /\ held' = [held EXCEPT ![t] = @ - 1]
            /\ UNCHANGED <<tm, weak, seen>>
Drop2(t) == /\ pc[t] = "drop2"
            /\ tm' = tm - 1 /\ pc' = [pc EXCEPT ![t] = "idle"]
            /\ UNCHANGED <<mb, held, weak, seen>>

\* ---- clone(ActorRef): mailbox sender first, then terminate sender (the source reference stays alive meanwhile)
Clone1(t) == /\ pc[t] = "idle" /\ held[t] > 0 /\ held[t] < MaxRefs
             /\ mb' = mb + 1 /\ pc' = [pc EXCEPT ![t] = "clone2"]
             /\ UNCHANGED <<tm, held, weak, seen>>
Clone2(t) == /\ pc[t] = "clone2"
             /\ tm' = tm + 1 /\ pc' = [pc EXCEPT ![t] = "idle"]
             /\ held' = [held EXCEPT ![t] = @ + 1]
             /\ UNCHANGED <<mb, weak, seen>>

\* ---- ActorWeak::upgrade: WeakSender::upgrade succeeds iff the count is non-zero; the second `?` drops the first half
Up1(t) == /\ pc[t] = "idle" /\ weak[t] /\ held[t] < MaxRefs
          /\ IF mb > 0 THEN mb' = mb + 1 /\ pc' = [pc EXCEPT ![t] = "up2"]
                       ELSE UNCHANGED mb /\ pc' = pc       \* None
          /\ UNCHANGED <<tm, held, weak, seen>>
Up2(t) == /\ pc[t] = "up2"
          /\ IF tm > 0 THEN /\ tm' = tm + 1 /\ pc' = [pc EXCEPT ![t] = "idle"]
                            /\ held' = [held EXCEPT ![t] = @ + 1] /\ UNCHANGED mb
                       ELSE /\ mb' = mb - 1 /\ pc' = [pc EXCEPT ![t] = "idle"]     \* the half already taken is released
                            /\ UNCHANGED <<tm, held>>
          /\ UNCHANGED <<weak, seen>>

\* ---- the actor loop polls its two receivers: a channel without senders reports "closed"
Observe == /\ seen = "open" /\ (tm = 0 \/ mb = 0)
           /\ seen' = "closed"
           /\ UNCHANGED <<mb, tm, held, weak, pc>>

Next == (\E t \in Threads : Drop1(t) \/ Drop2(t) \/ Clone1(t) \/ Clone2(t) \/ Up1(t) \/ Up2(t)) \/ Observe

Spec == Init /\ [][Next]_vars /\ WF_vars(Next)

Complete == \E t \in Threads : held[t] > 0
\* a complete reference can still come into existence only through a clone in progress (its source is complete) or
\* through an upgrade that already holds the first half AND will find a terminate sender
CanAppear == \E t \in Threads : pc[t] = "clone2" \/ (pc[t] = "up2" /\ tm > 0)

\* C07 (negative side): the loop never sees "unreferenced" while a complete strong reference exists
NoSpuriousStop == (tm = 0 \/ mb = 0) => ~Complete
\* counters are consistent with what the threads hold plus the halves in flight
HalvesMb == Cardinality({t \in Threads : pc[t] \in {"clone2", "up2"}})
HalvesTm == Cardinality({t \in Threads : pc[t] = "drop2"})
SumHeld == LET RECURSIVE S(_) S(T) == IF T = {} THEN 0 ELSE LET t == CHOOSE x \in T : TRUE IN held[t] + S(T \ {t}) IN S(Threads)
Counts == mb = SumHeld + HalvesMb /\ tm = SumHeld + HalvesTm
\* C07 (positive side): once nobody holds or is about to hold a reference, the loop does observe it
Quiet == \A t \in Threads : pc[t] = "idle" /\ held[t] = 0
EventuallyObserved == [](Quiet => <>(seen = "closed"))
=============================================================================
