------------------------------ MODULE Teardown ------------------------------
(***************************************************************************)
(* Fine-grained model of the race between tokio's two-step send            *)
(* (acquire a permit, then push the value) and the end of the actor task   *)
(* (close the receiver, drain it, drop it) on a multi-threaded runtime.    *)
(* RsActor.tla treats both as atomic (one task poll); here they are        *)
(* separate, independently enabled steps.                                   *)
(*                                                                         *)
(* Every envelope embeds an ActorRef, i.e. a Sender of the very channel it *)
(* travels through (actor_ref.rs:146-150).  An envelope pushed after the   *)
(* drain is therefore never freed and its reply oneshot is never closed:   *)
(* the asker waits forever (finding F2, property C03).                      *)
(*                                                                         *)
(* DetachedDrain = FALSE : the code before the fix (Receiver simply dropped)*)
(* DetachedDrain = TRUE  : actor.rs MailboxGuard: if a permit is still out  *)
(*                         when the task ends, the receiver is handed to a  *)
(*                         small task that discards late envelopes.         *)
(***************************************************************************)
EXTENDS Naturals, FiniteSets, Sequences, TLC

CONSTANTS Askers, Cap, DetachedDrain

VARIABLES
  pc,        \* asker: "init" | "acquired" | "waiting" (queued for a permit) | "pushed" | "ok" | "errSend" | "errRecv"
  permits,   \* free permits of the semaphore
  closed,    \* receiver.close() has run (semaphore closed)
  queue,     \* envelopes in the channel (sequence of askers)
  reply,     \* per asker: "none" | "open" | "val" | "closed"
  rx,        \* who owns the receiver: "actor" | "drainer" | "gone"
  apc,       \* actor task: "running" | "closing" | "draining" | "done"
  handles    \* user-held strong references (each asker holds one while it is not finished)

vars == <<pc, permits, closed, queue, reply, rx, apc, handles>>

Init ==
  /\ pc = [a \in Askers |-> "init"]
  /\ permits = Cap /\ closed = FALSE /\ queue = <<>>
  /\ reply = [a \in Askers |-> "none"]
  /\ rx = "actor" /\ apc = "running"
  /\ handles = Askers

Outstanding == Cardinality({a \in Askers : pc[a] = "acquired"})
Idle == permits + Len(queue) = Cap /\ Outstanding = 0      \* semaphore.is_idle(): every permit is back

\* ---- asker -----------------------------------------------------------------------------------
Acquire(a) ==           \* first half of Sender::send: closed check + permit, in one atomic step of the semaphore
  /\ pc[a] = "init"
  /\ IF closed THEN /\ pc' = [pc EXCEPT ![a] = "errSend"] /\ handles' = handles \ {a} /\ UNCHANGED permits
     ELSE IF permits > 0 THEN /\ pc' = [pc EXCEPT ![a] = "acquired"] /\ permits' = permits - 1 /\ UNCHANGED handles
     ELSE /\ pc' = [pc EXCEPT ![a] = "waiting"] /\ UNCHANGED <<permits, handles>>
  /\ UNCHANGED <<closed, queue, reply, rx, apc>>

WakeWaiter(a) ==        \* a queued waiter is polled again: gets a permit, or learns that the channel was closed
  /\ pc[a] = "waiting"
  /\ IF closed THEN /\ pc' = [pc EXCEPT ![a] = "errSend"] /\ handles' = handles \ {a} /\ UNCHANGED permits
     ELSE /\ permits > 0 /\ pc' = [pc EXCEPT ![a] = "acquired"] /\ permits' = permits - 1 /\ UNCHANGED handles
  /\ UNCHANGED <<closed, queue, reply, rx, apc>>

Push(a) ==              \* second half of Sender::send: no closed check any more
  /\ pc[a] = "acquired"
  /\ pc' = [pc EXCEPT ![a] = "pushed"]
  /\ queue' = Append(queue, a)
  /\ reply' = [reply EXCEPT ![a] = "open"]
  /\ UNCHANGED <<permits, closed, rx, apc, handles>>

GetReply(a) ==
  /\ pc[a] = "pushed" /\ reply[a] \in {"val", "closed"}
  /\ pc' = [pc EXCEPT ![a] = IF reply[a] = "val" THEN "ok" ELSE "errRecv"]
  /\ handles' = handles \ {a}
  /\ UNCHANGED <<permits, closed, queue, reply, rx, apc>>

\* ---- actor task --------------------------------------------------------------------------------
Handle ==               \* one loop iteration: take a message, answer it
  /\ apc = "running" /\ queue # <<>>
  /\ reply' = [reply EXCEPT ![Head(queue)] = "val"]
  /\ queue' = Tail(queue) /\ permits' = permits + 1
  /\ UNCHANGED <<pc, closed, rx, apc, handles>>

BeginEnd ==             \* stop / kill / error / panic: the loop is left (at any moment)
  /\ apc = "running" /\ apc' = "closing"
  /\ UNCHANGED <<pc, permits, closed, queue, reply, rx, handles>>

Close ==                \* receiver.close() (explicitly, or as the first thing Receiver::drop does)
  /\ apc = "closing" /\ closed' = TRUE /\ apc' = "draining"
  /\ UNCHANGED <<pc, permits, queue, reply, rx, handles>>

DrainAndDrop ==         \* Receiver::drop drains once; then the receiver is gone - or handed to the drainer
  /\ apc = "draining"
  /\ reply' = [a \in Askers |-> IF \E i \in 1..Len(queue) : queue[i] = a THEN "closed" ELSE reply[a]]
  /\ permits' = permits + Len(queue)
  /\ queue' = <<>>
  /\ rx' = IF DetachedDrain /\ Outstanding > 0 THEN "drainer" ELSE "gone"
  /\ apc' = "done"
  /\ UNCHANGED <<pc, closed, handles>>

\* ---- detached drainer (fix) ----------------------------------------------------------------------
DrainerPop ==
  /\ rx = "drainer" /\ queue # <<>>
  /\ reply' = [reply EXCEPT ![Head(queue)] = "closed"]
  /\ queue' = Tail(queue) /\ permits' = permits + 1
  /\ UNCHANGED <<pc, closed, rx, apc, handles>>

DrainerEnd ==           \* recv() returns None: closed and idle, or every sender is gone
  /\ rx = "drainer" /\ queue = <<>> /\ (Idle \/ handles = {})
  /\ rx' = "gone"
  /\ UNCHANGED <<pc, permits, closed, queue, reply, apc, handles>>

Next ==
  \/ \E a \in Askers : Acquire(a) \/ WakeWaiter(a) \/ Push(a) \/ GetReply(a)
  \/ Handle \/ BeginEnd \/ Close \/ DrainAndDrop \/ DrainerPop \/ DrainerEnd

Fairness ==
  /\ \A a \in Askers : WF_vars(Acquire(a)) /\ WF_vars(WakeWaiter(a)) /\ WF_vars(Push(a)) /\ WF_vars(GetReply(a))
  /\ WF_vars(Handle) /\ WF_vars(Close) /\ WF_vars(DrainAndDrop) /\ WF_vars(DrainerPop) /\ WF_vars(DrainerEnd)
  /\ SF_vars(BeginEnd)      \* the actor does end at some point (otherwise waiters may legitimately wait)

Spec == Init /\ [][Next]_vars /\ Fairness

\* an envelope is in the channel, nobody will ever take it out, and its reply is still open
Stranded == rx = "gone" /\ \E i \in 1..Len(queue) : reply[queue[i]] = "open"
NoStranded == ~Stranded

PermitsSane == permits + Len(queue) + Outstanding = Cap

\* C03: every ask completes once the actor has ended
Done(a) == pc[a] \in {"ok", "errSend", "errRecv"}
EveryAskCompletes == \A a \in Askers : <>Done(a)
=============================================================================
