----------------------------- MODULE SelectRace -----------------------------
(***************************************************************************)
(* Fine-grained model of one pass of the actor loop's                      *)
(*   tokio::select! { biased; terminate.recv(), mailbox.recv(), on_run }     *)
(* against a kill() issued from another thread at an arbitrary instant.      *)
(* RsActor.tla performs a whole select pass atomically; here the branches    *)
(* are polled one after the other and kill() can land between two polls.     *)
(* C06: once kill() has returned, at most ONE further handler starts (the    *)
(* one whose message was taken in a pass that had already polled the         *)
(* terminate branch), and the next pass stops the actor with killed = TRUE.  *)
(* With TermFirst = FALSE (mailbox polled before terminate) the bound fails. *)
(***************************************************************************)
EXTENDS Naturals, TLC

CONSTANTS Queued,        \* messages in the mailbox at the start
          TermFirst      \* the biased order of the code (TRUE) or the deviation (FALSE)

VARIABLES pc,            \* "p1" | "p2" (first / second branch of the pass) | "handler" | "stopping" | "parked"
          term,          \* a Terminate signal is in the channel
          mbox,          \* messages queued
          killRet,       \* kill() has returned
          after,         \* handlers started after kill() returned
          killedArg      \* argument on_stop received ("none" until then)

vars == <<pc, term, mbox, killRet, after, killedArg>>

Init == pc = "p1" /\ term = FALSE /\ mbox = Queued /\ killRet = FALSE /\ after = 0 /\ killedArg = "none"

Kill == /\ ~killRet /\ term' = TRUE /\ killRet' = TRUE
        /\ pc' = IF pc = "parked" THEN "p1" ELSE pc          \* the signal wakes a parked loop
        /\ UNCHANGED <<mbox, after, killedArg>>

PollTerm(next) ==
  IF term THEN /\ pc' = "stopping" /\ term' = FALSE /\ killedArg' = "true" /\ UNCHANGED <<mbox, after>>
  ELSE /\ pc' = next /\ UNCHANGED <<term, mbox, after, killedArg>>

PollMbox(next) ==
  IF mbox > 0 THEN /\ pc' = "handler" /\ mbox' = mbox - 1 /\ after' = IF killRet THEN after + 1 ELSE after
                   /\ UNCHANGED <<term, killedArg>>
  ELSE /\ pc' = next /\ UNCHANGED <<term, mbox, after, killedArg>>

\* both receivers registered the task's waker when they were polled: something that arrived since then has woken
\* the task, so the pass is repeated instead of parking
Rest == IF term \/ mbox > 0 THEN "p1" ELSE "parked"
First  == pc = "p1" /\ (IF TermFirst THEN PollTerm("p2") ELSE PollMbox("p2")) /\ UNCHANGED killRet
Second == pc = "p2" /\ (IF TermFirst THEN PollMbox(Rest) ELSE PollTerm(Rest)) /\ UNCHANGED killRet
HandlerEnd == pc = "handler" /\ pc' = "p1" /\ UNCHANGED <<term, mbox, killRet, after, killedArg>>

Next == Kill \/ First \/ Second \/ HandlerEnd
Spec == Init /\ [][Next]_vars /\ WF_vars(First) /\ WF_vars(Second) /\ WF_vars(HandlerEnd)

AtMostOneMore == after <= 1
KilledFlag == pc = "stopping" => killedArg = "true"
KillStops == killRet ~> (pc = "stopping")
=============================================================================
