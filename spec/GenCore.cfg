SPECIFICATION Spec
INVARIANT Emit
CHECK_DEADLOCK FALSE
CONSTANTS
  ActorSeq <- k_ActorSeq
  ClientSeq <- k_ClientSeq
  CapChoices = {1,2}
  MaxMsg = 3
  MaxOps = 5
  MaxH = 3
  MaxTime = 3
  Timeouts = {1,2}
  OpKinds = {"tell","ask","tellT","askT","stop","kill"}
  StartOuts = {"ok","err","panic"}
  HandlerOuts = {"ok","panic"}
  RunOuts = {"true","false","err","panic"}
  StopOuts = {"ok","err","panic"}
  NestKinds = {}
  NestHooks = {}
  HandleOps = {"clone","drop","down","up","alive","ident"}
  DeadlockDetection = FALSE
  EdgeClearedOnReply = FALSE
  MetricsOn = FALSE
  Depth = 30
